#!/usr/bin/env python3
"""Selftest of the C++-backend harness (harness/lib/cxx_harness.py + harness/cxx/*).

  python3 /verif/harness/cxx/selftest.py
"""

import json
import pathlib
import sys

sys.path.insert(0, str(pathlib.Path(__file__).resolve().parent.parent / "py"))
from selftest_common import (CACHE, PDLC, TREE_BE, TREE_LE, Checker, Timer, be_text, canonical_cases,  # noqa: E402
                             excludes_from_script, le_text, value_matches, vectors)
import cxx_harness  # noqa: E402

# the repo's generate_cxx_backend_tests.py skips this invalid vector (array elements are not validated)
KNOWN_UNVALIDATED = {"Packet_Array_Field_EnumElement_ConstantSize"}


def tree_requests(mod, big):
    def h(le, be):
        return be if big else le
    return [
        ("t1", mod, "A", "decode_full", h("013412", "011234")),
        ("t2", mod, "B", "decode_full", "02010203"),
        ("t3", mod, "P", "decode_full", "07aa"),
        ("t4", mod, "A", "decode_full", "02aabb"),
        ("t5", mod, "A", "encode", '{"x":4660}'),
        ("t6", mod, "B", "encode", '{"y":[1,2]}'),
        ("t7", mod, "P", "encode", '{"a":9,"payload":[1]}'),
        ("t8", mod, "A", "roundtrip", '{"x":4660}'),
        ("t9", mod, "B", "recode", "0205"),
        ("t10", mod, "E", "enum_from", "1"),
        ("t11", mod, "F", "enum_from", "3"),
        ("t12", mod, "F", "enum_from", "300"),
        ("t13", mod, "F", "enum_from", "6"),
        ("t14", mod, "F", "enum_sweep", "0\t255"),
        ("t15", mod, "", "enum_from", "F\t4"),
        ("t16", mod, "Q", "roundtrip",
         '{"e":3,"f":1,"s":{"a":5,"e":77},"w":66051,"ss":[{"a":1,"e":1},{"a":2,"e":9}],"v":[258,772]}'),
        ("t17", mod, "Nope", "decode_full", "00"),
        ("t18", mod, "A", "bogus", ""),
        ("t19", mod, "A", "encode", '{"x":70000}'),
        ("t20", mod, "P", "decode_full", ""),
        ("t21", mod, "A", "size", '{"x":1}'),
        ("t22", "nomodule", "A", "encode", "{}"),
        ("t23", mod, "S", "decode_full", "0507"),
        ("t24", mod, "S", "encode", '{"a":5,"e":7}'),
        ("t25", mod, "A", "decode_full", "0134"),
        ("t26", mod, "A", "encode", '{"x":1,"zz":2}'),
        ("t27", mod, "A", "encode", '{"x":1,"a":1}'),
    ]


def check_tree(c, res, big):
    def h(le, be):
        return be if big else le
    c.check(res["t1"] == ("ok", {"value": {"x": 0x1234}, "class": "A"}), "t1 %r" % (res["t1"],))
    c.check(res["t2"] == ("ok", {"value": {"y": [1, 2, 3]}, "class": "B"}), "t2 %r" % (res["t2"],))
    c.check(res["t3"] == ("ok", {"value": {"a": 7, "payload": [0xaa]}, "class": "P"}), "t3 %r" % (res["t3"],))
    # NOTE: generated child views do not check the parent constraint (a = 1): `ok` here.
    c.check(res["t4"][0] in ("ok", "err"), "t4 %r" % (res["t4"],))
    c.note("A view created from bytes with a=2 (constraint a=1): %s" % (res["t4"],))
    c.check(res["t5"] == ("ok", {"hex": h("013412", "011234"), "size": 3}), "t5 %r" % (res["t5"],))
    c.check(res["t6"][0] == "ok" and res["t6"][1]["hex"] == "020102", "t6 %r" % (res["t6"],))
    c.check(res["t7"][0] == "ok" and res["t7"][1]["hex"] == "0901", "t7 %r" % (res["t7"],))
    c.check(res["t8"] == ("ok", {"hex": h("013412", "011234"), "value": {"x": 4660}, "class": "A"}), "t8 %r" % (res["t8"],))
    c.check(res["t9"] == ("ok", {"value": {"y": [5]}, "hex": "0205", "class": "B"}), "t9 %r" % (res["t9"],))
    c.check(res["t10"][0] == "unsupported", "t10 %r" % (res["t10"],))
    c.check(res["t11"][0] == "ok" and res["t11"][1]["valid"] is True, "t11 %r" % (res["t11"],))
    c.check(res["t12"] == ("err", {"too_wide": True}), "t12 %r" % (res["t12"],))
    c.check(res["t13"][0] == "ok" and res["t13"][1]["valid"] is False, "t13 %r" % (res["t13"],))
    c.check(res["t14"][0] == "ok" and res["t14"][1]["runs"] == [[0, 1, "err"], [1, 5, "ok"], [6, 250, "err"]]
            and res["t14"][1]["named"] == {"1": "X"}, "t14 %r" % (res["t14"],))
    c.check(res["t15"][0] == "ok" and res["t15"][1]["valid"] is True, "t15 %r" % (res["t15"],))
    want = {"e": 3, "f": 1, "s": {"a": 5, "e": 77}, "w": 66051, "ss": [{"a": 1, "e": 1}, {"a": 2, "e": 9}], "v": [258, 772]}
    c.check(res["t16"][0] == "ok" and res["t16"][1]["value"] == want
            and res["t16"][1]["hex"] == h("0301054d030201020101020902010403", "0301054d010203020101020901020304"),
            "t16 %r" % (res["t16"],))
    c.check(res["t17"][0] == "unsupported", "t17 %r" % (res["t17"],))
    c.check(res["t18"][0] == "unsupported", "t18 %r" % (res["t18"],))
    c.check(res["t19"][0] == "unsupported", "t19 %r" % (res["t19"],))
    c.check(res["t20"] == ("err", {"variant": "invalid"}), "t20 %r" % (res["t20"],))
    c.check(res["t21"] == ("ok", {"size": 3}), "t21 %r" % (res["t21"],))
    c.check(res["t22"][0] == "unsupported", "t22 %r" % (res["t22"],))
    c.check(res["t23"] == ("ok", {"value": {"a": 5, "e": 7}, "class": "S"}), "t23 %r" % (res["t23"],))
    c.check(res["t24"] == ("ok", {"hex": "0507", "size": 2}), "t24 %r" % (res["t24"],))
    c.check(res["t25"] == ("err", {"variant": "invalid"}), "t25 %r" % (res["t25"],))
    c.check(res["t26"][0] == "unsupported", "t26 %r" % (res["t26"],))
    c.check(res["t27"][0] == "ok", "t27 %r" % (res["t27"],))


def canonical(c, binary, mod, schema, vecs, unsupported):
    supported = set(t for t in schema["types"] if t not in unsupported)
    reqs = []
    cases = list(canonical_cases(schema, vecs, supported))
    for packet, i, t, target in cases:
        cid = "%s/%s/%s" % (mod, packet, i)
        reqs.append((cid + "/d", mod, target, "decode_full", t["packed"]))
        if "unpacked" in t:
            reqs.append((cid + "/e", mod, target, "encode", json.dumps(t["unpacked"], separators=(",", ":"))))
            reqs.append((cid + "/r", mod, target, "recode", t["packed"]))
    res = cxx_harness.run(binary, reqs)
    c.check(len(res) == len(reqs), "%s: %d replies for %d requests" % (mod, len(res), len(reqs)))
    for packet, i, t, target in cases:
        cid = "%s/%s/%s" % (mod, packet, i)
        st, pl = res.get(cid + "/d", ("missing", None))
        if "expected_error" in t:
            if target in KNOWN_UNVALIDATED:
                c.note("%s: invalid vector (%s) -> %s (known: the repo's C++ test skips it)" % (cid, t["expected_error"], st))
            else:
                c.check(st == "err" and pl["variant"] == "invalid", "%s decode expected invalid got %s %r" % (cid, st, pl))
            continue
        cons = {k: v["int"] for k, v in schema["types"][target]["constraints"].items()}
        c.check(st == "ok" and value_matches(pl["value"], t["unpacked"], cons),
                "%s decode: %s %r want %r" % (cid, st, pl, t["unpacked"]))
        st, pl = res.get(cid + "/e", ("missing", None))
        c.check(st == "ok" and pl["hex"] == t["packed"] and pl["size"] == len(t["packed"]) // 2,
                "%s encode: %s %r want %s" % (cid, st, pl, t["packed"]))
        st, pl = res.get(cid + "/r", ("missing", None))
        c.check(st == "ok" and pl["hex"] == t["packed"], "%s recode: %s %r" % (cid, st, pl))
    return len(cases)


ABORT_PDL = """little_endian_packets
struct T { a: 8 }
packet W { x: 8, y: 16 }
"""


def main():
    work = CACHE / "cxx"
    ex = excludes_from_script("run_cxx_generator_tests.sh")
    modules = [
        {"name": "le_canon", "pdl": le_text(), "exclude": ex},
        {"name": "be_canon", "pdl": be_text(), "exclude": ex},
        {"name": "tree_le", "pdl": TREE_LE, "exclude": []},
        {"name": "tree_be", "pdl": TREE_BE, "exclude": []},
        {"name": "broken_hdr", "pdl": le_text(), "exclude": []},  # custom field types are undefined in the header
        {"name": "broken_pdl", "pdl": "little_endian_packets\npacket X { a: 8, a: 8 }\n", "exclude": []},
    ]
    c = Checker("cxx")
    timer = Timer()
    binary = cxx_harness.build(modules, work, PDLC, sanitize=True, ndebug=False)
    t_build = timer.lap()
    timing = cxx_harness.build.last_timing
    binary2 = cxx_harness.build(modules, work, PDLC, sanitize=True, ndebug=False)
    t_rebuild = timer.lap()
    report = json.loads((work / "build_report.json").read_text())
    schemas = json.loads((work / "schema.json").read_text())
    c.check(binary == binary2 and binary.exists(), "binary path")
    c.check(sorted(report["failed_modules"]) == ["broken_pdl"], "failed modules %r" % (sorted(report["failed_modules"]),))
    c.check(sorted(report["uncompilable_modules"]) == ["broken_hdr"]
            and report["uncompilable_modules"]["broken_hdr"]["header_compiles"] is False,
            "uncompilable %r" % (sorted(report["uncompilable_modules"]),))
    c.check(report["built_modules"] == ["be_canon", "le_canon", "tree_be", "tree_le"], "built %r" % (report["built_modules"],))
    c.note("build (sanitize) %.1fs %s; no-op rebuild %.1fs" % (t_build, json.dumps(timing), t_rebuild))
    for mod, un in sorted(report["unsupported_types"].items()):
        c.note("unsupported types in %s: %s" % (mod, {k: v[:60] for k, v in un.items()}))
    timer.lap()
    for mod, big in (("tree_le", False), ("tree_be", True)):
        res = cxx_harness.run(binary, tree_requests(mod, big))
        check_tree(c, res, big)
    n1 = canonical(c, binary, "le_canon", schemas["le_canon"], vectors("le"), report["unsupported_types"].get("le_canon", {}))
    n2 = canonical(c, binary, "be_canon", schemas["be_canon"], vectors("be"), report["unsupported_types"].get("be_canon", {}))
    c.note("canonical vectors checked: le %d, be %d (decode_full+encode+recode) in %.1fs" % (n1, n2, timer.lap()))

    # abort / restart: provoke the runtime assert of packet_runtime.h with a module whose
    # generated header is sabotaged on the fly (the length check of W is made too permissive so
    # that read_le runs off the slice).  With -DNDEBUG the assert is gone and std::vector::at
    # throws instead: the driver must report `panic` and stay alive.
    import py_harness
    bad_work = CACHE / "cxx-abort"
    orig_run_pdlc = py_harness.run_pdlc
    hits = []

    def fake_pdlc(pdlc, args, timeout=120, cwd=None):
        ok, out, err = orig_run_pdlc(pdlc, args, timeout=timeout, cwd=cwd)
        if ok and "cxx" in [str(a) for a in args]:
            new = out.replace("if (span.size() < 3) {", "if (span.size() < 1) {", 1)
            hits.append(new != out)
            out = new
        return ok, out, err
    py_harness.run_pdlc = fake_pdlc
    timer.lap()
    try:
        binary3 = cxx_harness.build([{"name": "ab", "pdl": ABORT_PDL, "exclude": []}], bad_work, PDLC, sanitize=True, ndebug=False)
        t_small = timer.lap()
        binary4 = cxx_harness.build([{"name": "ab", "pdl": ABORT_PDL, "exclude": []}], bad_work, PDLC, sanitize=False, ndebug=True)
        t_small_plain = timer.lap()
    finally:
        py_harness.run_pdlc = orig_run_pdlc
    c.check(hits == [True, True], "sabotage pattern found in generated header %r" % (hits,))
    c.check(binary3 != binary4, "one build directory per flag combination")
    c.note("one-module build: sanitize %.1fs, plain+NDEBUG %.1fs (cached when unchanged)" % (t_small, t_small_plain))
    abort_reqs = [("a1", "ab", "W", "decode_full", "010203"), ("a2", "ab", "W", "decode_full", "01"),
                  ("a3", "ab", "W", "decode_full", "040506")]
    res = cxx_harness.run(binary3, abort_reqs, timeout_s=20)
    c.check(res["a1"][0] == "ok", "abort a1 %r" % (res["a1"],))
    c.check(res["a2"][0] == "abort" and len(res["a2"][1]["stderr"]) > 0, "abort a2 %r" % (res["a2"],))
    c.check(res["a3"][0] == "ok", "abort a3 %r" % (res["a3"],))
    c.note("abort payload: returncode=%s signal=%s stderr tail: %r" % (
        res["a2"][1].get("returncode"), res["a2"][1].get("signal"), res["a2"][1].get("stderr", "")[-160:]))
    res = cxx_harness.run(binary4, abort_reqs, timeout_s=20)
    c.check(res["a1"][0] == "ok" and res["a3"][0] == "ok", "ndebug a1/a3 %r %r" % (res["a1"], res["a3"]))
    c.check(res["a2"][0] == "panic" and "out_of_range" in res["a2"][1], "ndebug a2 %r" % (res["a2"],))
    c.note("NDEBUG build, same input: %r" % (res["a2"],))
    ok = c.report()
    sys.exit(0 if ok else 1)


if __name__ == "__main__":
    main()
