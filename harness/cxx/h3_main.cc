// Main loop of the C++ line-protocol driver (PROTOCOL.md sections 0 and 3).
#include <cstdio>
#include <cstdlib>
#include <cxxabi.h>
#include <exception>
#include <iostream>
#include <string>
#include <typeinfo>

#include "h3_driver.h"

static std::string demangle(char const* name) {
  int status = 0;
  char* d = abi::__cxa_demangle(name, nullptr, nullptr, &status);
  std::string out = (status == 0 && d != nullptr) ? d : name;
  std::free(d);
  return out;
}

int main() {
  h3::Registry registry;
  h3_register_modules(registry);
  std::ios::sync_with_stdio(false);
  std::string line;
  while (std::getline(std::cin, line)) {
    if (!line.empty() && line.back() == '\r') line.pop_back();
    if (line.empty()) continue;
    h3::Request rq;
    std::string* parts[5] = {&rq.case_id, &rq.module, &rq.type, &rq.op, &rq.arg};
    size_t pos = 0;
    for (int i = 0; i < 5; i++) {
      if (i == 4) { *parts[i] = pos <= line.size() ? line.substr(pos) : ""; break; }
      size_t tab = line.find('\t', pos);
      if (tab == std::string::npos) { *parts[i] = line.substr(pos); pos = line.size() + 1; for (int k = i + 1; k < 5; k++) *parts[k] = ""; break; }
      *parts[i] = line.substr(pos, tab - pos);
      pos = tab + 1;
    }
    h3::Reply rp;
    auto it = registry.find(rq.module);
    if (it == registry.end()) {
      rp.unsupported("unknown module " + rq.module);
    } else {
      try {
        it->second(rq, rp);
      } catch (std::exception const& e) {
        rp.set("panic", h3::Json::string(demangle(typeid(e).name()) + ": " + e.what()));
      } catch (...) {
        rp.set("panic", h3::Json::string("unknown c++ exception"));
      }
    }
    std::string out = rq.case_id + "\t" + rp.status + "\t" + rp.payload + "\n";
    fwrite(out.data(), 1, out.size(), stdout);
    fflush(stdout);
  }
  return 0;
}
