// Support code of the C++ line-protocol driver (PROTOCOL.md section 3).
// Included by every generated module translation unit and by h3_main.cc.
#pragma once

#include <array>
#include <cstdint>
#include <cstdio>
#include <functional>
#include <limits>
#include <map>
#include <memory>
#include <optional>
#include <string>
#include <type_traits>
#include <utility>
#include <vector>

#include <packet_runtime.h>

namespace h3 {

// ---------------------------------------------------------------- JSON value
struct Json {
  enum Kind { Null, Bool, Int, Other, Str, Arr, Obj };
  Kind kind{Null};
  bool b{false};
  uint64_t u{0};          // Kind::Int: non negative integer that fits 64 bits
  std::string s;          // Kind::Str, and the source text of Kind::Other numbers
  std::vector<Json> a;
  std::vector<std::pair<std::string, Json>> o;

  Json() = default;
  static Json number(uint64_t v) { Json j; j.kind = Int; j.u = v; return j; }
  static Json boolean(bool v) { Json j; j.kind = Bool; j.b = v; return j; }
  static Json string(std::string v) { Json j; j.kind = Str; j.s = std::move(v); return j; }
  static Json array() { Json j; j.kind = Arr; return j; }
  static Json object() { Json j; j.kind = Obj; return j; }
  void set(std::string const& k, Json v) { o.emplace_back(k, std::move(v)); }
  void push(Json v) { a.emplace_back(std::move(v)); }
  bool is_null() const { return kind == Null; }
  bool is_object() const { return kind == Obj; }
  bool is_array() const { return kind == Arr; }
  bool is_int() const { return kind == Int; }

  static void dump_string(std::string const& s, std::string& out) {
    out.push_back('"');
    for (unsigned char c : s) {
      switch (c) {
        case '"': out += "\\\""; break;
        case '\\': out += "\\\\"; break;
        case '\n': out += "\\n"; break;
        case '\r': out += "\\r"; break;
        case '\t': out += "\\t"; break;
        default:
          if (c < 0x20) {
            char buf[8];
            snprintf(buf, sizeof buf, "\\u%04x", c);
            out += buf;
          } else {
            out.push_back(static_cast<char>(c));
          }
      }
    }
    out.push_back('"');
  }

  void dump(std::string& out) const {
    switch (kind) {
      case Null: out += "null"; break;
      case Bool: out += b ? "true" : "false"; break;
      case Int: out += std::to_string(u); break;
      case Other: out += s; break;
      case Str: dump_string(s, out); break;
      case Arr: {
        out.push_back('[');
        bool first = true;
        for (auto const& e : a) {
          if (!first) out.push_back(',');
          first = false;
          e.dump(out);
        }
        out.push_back(']');
        break;
      }
      case Obj: {
        out.push_back('{');
        bool first = true;
        for (auto const& [k, v] : o) {
          if (!first) out.push_back(',');
          first = false;
          dump_string(k, out);
          out.push_back(':');
          v.dump(out);
        }
        out.push_back('}');
        break;
      }
    }
  }
  std::string dump() const { std::string s; dump(s); return s; }
};

class JsonParser {
 public:
  explicit JsonParser(std::string const& text) : t_(text) {}
  bool parse(Json& out, std::string& err) {
    if (!value(out, 0)) { err = err_.empty() ? "bad json" : err_; return false; }
    ws();
    if (p_ != t_.size()) { err = "trailing characters after json value"; return false; }
    return true;
  }

 private:
  std::string const& t_;
  size_t p_{0};
  std::string err_;
  void ws() { while (p_ < t_.size() && (t_[p_] == ' ' || t_[p_] == '\t' || t_[p_] == '\n' || t_[p_] == '\r')) p_++; }
  bool lit(char const* w) {
    size_t n = std::char_traits<char>::length(w);
    if (t_.compare(p_, n, w) == 0) { p_ += n; return true; }
    return false;
  }
  bool str(std::string& out) {
    if (p_ >= t_.size() || t_[p_] != '"') return false;
    p_++;
    while (p_ < t_.size()) {
      char c = t_[p_++];
      if (c == '"') return true;
      if (c == '\\') {
        if (p_ >= t_.size()) return false;
        char e = t_[p_++];
        switch (e) {
          case '"': out.push_back('"'); break;
          case '\\': out.push_back('\\'); break;
          case '/': out.push_back('/'); break;
          case 'b': out.push_back('\b'); break;
          case 'f': out.push_back('\f'); break;
          case 'n': out.push_back('\n'); break;
          case 'r': out.push_back('\r'); break;
          case 't': out.push_back('\t'); break;
          case 'u': {
            if (p_ + 4 > t_.size()) return false;
            unsigned cp = 0;
            for (int i = 0; i < 4; i++) {
              char h = t_[p_++];
              cp <<= 4;
              if (h >= '0' && h <= '9') cp |= h - '0';
              else if (h >= 'a' && h <= 'f') cp |= h - 'a' + 10;
              else if (h >= 'A' && h <= 'F') cp |= h - 'A' + 10;
              else return false;
            }
            if (cp < 0x80) out.push_back(static_cast<char>(cp));
            else if (cp < 0x800) { out.push_back(static_cast<char>(0xc0 | (cp >> 6))); out.push_back(static_cast<char>(0x80 | (cp & 0x3f))); }
            else { out.push_back(static_cast<char>(0xe0 | (cp >> 12))); out.push_back(static_cast<char>(0x80 | ((cp >> 6) & 0x3f))); out.push_back(static_cast<char>(0x80 | (cp & 0x3f))); }
            break;
          }
          default: return false;
        }
      } else {
        out.push_back(c);
      }
    }
    return false;
  }
  bool value(Json& out, int depth) {
    if (depth > 256) { err_ = "json nesting too deep"; return false; }
    ws();
    if (p_ >= t_.size()) return false;
    char c = t_[p_];
    if (c == 'n') { out = Json(); return lit("null"); }
    if (c == 't') { out = Json::boolean(true); return lit("true"); }
    if (c == 'f') { out = Json::boolean(false); return lit("false"); }
    if (c == '"') { out = Json::string(""); return str(out.s); }
    if (c == '[') {
      p_++;
      out = Json::array();
      ws();
      if (p_ < t_.size() && t_[p_] == ']') { p_++; return true; }
      while (true) {
        Json e;
        if (!value(e, depth + 1)) return false;
        out.a.emplace_back(std::move(e));
        ws();
        if (p_ < t_.size() && t_[p_] == ',') { p_++; continue; }
        if (p_ < t_.size() && t_[p_] == ']') { p_++; return true; }
        return false;
      }
    }
    if (c == '{') {
      p_++;
      out = Json::object();
      ws();
      if (p_ < t_.size() && t_[p_] == '}') { p_++; return true; }
      while (true) {
        ws();
        std::string k;
        if (!str(k)) return false;
        ws();
        if (p_ >= t_.size() || t_[p_] != ':') return false;
        p_++;
        Json e;
        if (!value(e, depth + 1)) return false;
        out.o.emplace_back(std::move(k), std::move(e));
        ws();
        if (p_ < t_.size() && t_[p_] == ',') { p_++; continue; }
        if (p_ < t_.size() && t_[p_] == '}') { p_++; return true; }
        return false;
      }
    }
    // number
    size_t start = p_;
    bool plain = true;
    if (c == '-') { plain = false; p_++; }
    size_t digits = 0;
    while (p_ < t_.size() && t_[p_] >= '0' && t_[p_] <= '9') { p_++; digits++; }
    if (digits == 0) return false;
    if (p_ < t_.size() && (t_[p_] == '.' || t_[p_] == 'e' || t_[p_] == 'E')) {
      plain = false;
      while (p_ < t_.size() && (t_[p_] == '.' || t_[p_] == 'e' || t_[p_] == 'E' || t_[p_] == '+' || t_[p_] == '-' || (t_[p_] >= '0' && t_[p_] <= '9'))) p_++;
    }
    std::string text = t_.substr(start, p_ - start);
    if (plain) {
      uint64_t v = 0;
      bool overflow = false;
      for (char d : text) {
        uint64_t nd = static_cast<uint64_t>(d - '0');
        if (v > (UINT64_MAX - nd) / 10) { overflow = true; break; }
        v = v * 10 + nd;
      }
      if (!overflow) { out = Json::number(v); return true; }
    }
    out = Json();
    out.kind = Json::Other;
    out.s = text;
    return true;
  }
};

// ---------------------------------------------------------------- value -> json
inline Json to_json(uint8_t v) { return Json::number(v); }
inline Json to_json(uint16_t v) { return Json::number(v); }
inline Json to_json(uint32_t v) { return Json::number(v); }
inline Json to_json(uint64_t v) { return Json::number(v); }
template <typename E, std::enable_if_t<std::is_enum_v<E>, int> = 0>
Json to_json(E v) { return Json::number(static_cast<uint64_t>(static_cast<std::underlying_type_t<E>>(v))); }
template <typename T> Json to_json(std::optional<T> const& v);
template <typename T> Json to_json(std::vector<T> const& v);
template <typename T, size_t N> Json to_json(std::array<T, N> const& v);

template <typename T> Json conv(T const& v) { return to_json(v); }  // ADL finds the per struct overloads

template <typename T> Json to_json(std::optional<T> const& v) { return v.has_value() ? conv(*v) : Json(); }
template <typename T> Json to_json(std::vector<T> const& v) {
  Json j = Json::array();
  j.a.reserve(v.size());
  for (auto const& e : v) j.a.emplace_back(conv(e));
  return j;
}
template <typename T, size_t N> Json to_json(std::array<T, N> const& v) {
  Json j = Json::array();
  for (auto const& e : v) j.a.emplace_back(conv(e));
  return j;
}

// ---------------------------------------------------------------- json -> value
template <typename U>
bool int_from(Json const& j, U& out, std::string& err) {
  if (!j.is_int()) { err = "expected a non negative integer, got " + j.dump().substr(0, 40); return false; }
  if (j.u > static_cast<uint64_t>(std::numeric_limits<U>::max())) {
    err = "value " + std::to_string(j.u) + " does not fit the " + std::to_string(sizeof(U) * 8) + " bit backing type";
    return false;
  }
  out = static_cast<U>(j.u);
  return true;
}
inline bool from_json(Json const& j, uint8_t& out, std::string& err) { return int_from(j, out, err); }
inline bool from_json(Json const& j, uint16_t& out, std::string& err) { return int_from(j, out, err); }
inline bool from_json(Json const& j, uint32_t& out, std::string& err) { return int_from(j, out, err); }
inline bool from_json(Json const& j, uint64_t& out, std::string& err) { return int_from(j, out, err); }
template <typename E, std::enable_if_t<std::is_enum_v<E>, int> = 0>
bool from_json(Json const& j, E& out, std::string& err) {
  std::underlying_type_t<E> raw{};
  if (!int_from(j, raw, err)) return false;
  out = static_cast<E>(raw);
  return true;
}
template <typename T> bool from_json(Json const& j, std::optional<T>& out, std::string& err);
template <typename T> bool from_json(Json const& j, std::vector<T>& out, std::string& err);
template <typename T, size_t N> bool from_json(Json const& j, std::array<T, N>& out, std::string& err);

template <typename T> bool unconv(Json const& j, T& out, std::string& err) { return from_json(j, out, err); }

template <typename T> bool from_json(Json const& j, std::optional<T>& out, std::string& err) {
  if (j.is_null()) { out = std::nullopt; return true; }
  T v{};
  if (!unconv(j, v, err)) return false;
  out = std::move(v);
  return true;
}
template <typename T> bool from_json(Json const& j, std::vector<T>& out, std::string& err) {
  if (!j.is_array()) { err = "expected a list"; return false; }
  out.clear();
  out.reserve(j.a.size());
  for (auto const& e : j.a) {
    T v{};
    if (!unconv(e, v, err)) return false;
    out.emplace_back(std::move(v));
  }
  return true;
}
template <typename T, size_t N> bool from_json(Json const& j, std::array<T, N>& out, std::string& err) {
  if (!j.is_array()) { err = "expected a list"; return false; }
  if (j.a.size() != N) { err = "std::array needs exactly " + std::to_string(N) + " elements, got " + std::to_string(j.a.size()); return false; }
  for (size_t n = 0; n < N; n++) {
    if (!unconv(j.a[n], out[n], err)) return false;
  }
  return true;
}

// ---------------------------------------------------------------- protocol
struct Request {
  std::string case_id, module, type, op, arg;
};

struct Reply {
  std::string status{"unsupported"};
  std::string payload{"\"no reply\""};
  void set(std::string st, Json const& j) { status = std::move(st); payload = j.dump(); }
  void unsupported(std::string const& why) { set("unsupported", Json::string(why)); }
  void invalid(std::string const& stage = "") {
    Json o = Json::object();
    o.set("variant", Json::string("invalid"));
    if (!stage.empty()) o.set("stage", Json::string(stage));
    set("err", o);
  }
};

inline std::string to_hex(std::vector<uint8_t> const& v) {
  static char const* d = "0123456789abcdef";
  std::string s;
  s.reserve(v.size() * 2);
  for (uint8_t b : v) { s.push_back(d[b >> 4]); s.push_back(d[b & 15]); }
  return s;
}

inline bool from_hex(std::string const& s, std::vector<uint8_t>& out) {
  if (s.size() % 2) return false;
  out.clear();
  out.reserve(s.size() / 2);
  auto nib = [](char c) -> int {
    if (c >= '0' && c <= '9') return c - '0';
    if (c >= 'a' && c <= 'f') return c - 'a' + 10;
    if (c >= 'A' && c <= 'F') return c - 'A' + 10;
    return -1;
  };
  for (size_t i = 0; i < s.size(); i += 2) {
    int h = nib(s[i]), l = nib(s[i + 1]);
    if (h < 0 || l < 0) return false;
    out.push_back(static_cast<uint8_t>(h << 4 | l));
  }
  return true;
}

inline pdl::packet::slice make_slice(std::vector<uint8_t> bytes) {
  return pdl::packet::slice(std::make_shared<const std::vector<uint8_t>>(std::move(bytes)));
}

// view: parse the bytes, fill `value`; returns IsValid().
using ViewFn = bool (*)(pdl::packet::slice const&, Json& value);
// build: construct the builder from `value`, serialize; returns false with `err` when the
// JSON cannot be expressed with the generated C++ types.
using BuildFn = bool (*)(Json const& value, std::vector<uint8_t>& bytes, uint64_t& size, std::string& err);

inline void codec_op(Request const& rq, char const* class_name, ViewFn view, BuildFn build, Reply& rp) {
  auto parse_json_arg = [&](Json& j) -> bool {
    std::string err;
    JsonParser p(rq.arg);
    if (!p.parse(j, err)) { rp.unsupported("bad json argument: " + err); return false; }
    return true;
  };
  auto parse_hex_arg = [&](std::vector<uint8_t>& b) -> bool {
    if (!from_hex(rq.arg, b)) { rp.unsupported("bad hex argument"); return false; }
    return true;
  };
  if (rq.op == "decode_full" || rq.op == "recode") {
    if (view == nullptr) { rp.unsupported("no parser for this type"); return; }
    std::vector<uint8_t> bytes;
    if (!parse_hex_arg(bytes)) return;
    Json value;
    if (!view(make_slice(bytes), value)) { rp.invalid(rq.op == "recode" ? "decode" : ""); return; }
    Json o = Json::object();
    o.set("value", value);
    if (rq.op == "recode") {
      if (build == nullptr) { rp.unsupported("no builder for this type"); return; }
      std::vector<uint8_t> out;
      uint64_t size = 0;
      std::string err;
      if (!build(value, out, size, err)) { rp.unsupported("decoded value cannot be rebuilt: " + err); return; }
      o.set("hex", Json::string(to_hex(out)));
    }
    o.set("class", Json::string(class_name));
    rp.set("ok", o);
    return;
  }
  if (rq.op == "encode" || rq.op == "roundtrip" || rq.op == "size") {
    if (build == nullptr) { rp.unsupported("no builder for this type"); return; }
    Json j;
    if (!parse_json_arg(j)) return;
    std::vector<uint8_t> out;
    uint64_t size = 0;
    std::string err;
    if (!build(j, out, size, err)) { rp.unsupported(err); return; }
    Json o = Json::object();
    if (rq.op == "size") {
      o.set("size", Json::number(size));
      rp.set("ok", o);
      return;
    }
    o.set("hex", Json::string(to_hex(out)));
    if (rq.op == "encode") {
      o.set("size", Json::number(size));
    } else {
      if (view == nullptr) { rp.unsupported("no parser for this type"); return; }
      Json value;
      if (!view(make_slice(out), value)) { rp.invalid("decode"); return; }
      o.set("value", value);
      o.set("class", Json::string(class_name));
    }
    rp.set("ok", o);
    return;
  }
  rp.unsupported("unknown op " + rq.op + " for a packet/struct type");
}

// enum helpers -----------------------------------------------------------
using EnumValidFn = bool (*)(uint64_t raw);          // nullptr for open enums
using EnumTextFn = std::string (*)(uint64_t raw);

inline void enum_op(Request const& rq, std::string const& arg, unsigned backing_bits, EnumValidFn valid, EnumTextFn text, Reply& rp) {
  auto parse_u64 = [](std::string const& s, uint64_t& v) -> bool {
    if (s.empty() || s.size() > 20) return false;
    v = 0;
    for (char c : s) {
      if (c < '0' || c > '9') return false;
      uint64_t d = static_cast<uint64_t>(c - '0');
      if (v > (UINT64_MAX - d) / 10) return false;
      v = v * 10 + d;
    }
    return true;
  };
  auto fits = [&](uint64_t v) { return backing_bits >= 64 || v < (uint64_t{1} << backing_bits); };
  auto big = [](uint64_t v) { return v > (uint64_t{1} << 53) ? Json::string(std::to_string(v)) : Json::number(v); };
  if (valid == nullptr) { rp.unsupported("open enum: the C++ backend generates no IsValid helper"); return; }
  if (rq.op == "enum_from") {
    uint64_t x;
    if (!parse_u64(arg, x)) { rp.unsupported("enum_from: bad integer"); return; }
    if (!fits(x)) { Json o = Json::object(); o.set("too_wide", Json::boolean(true)); rp.set("err", o); return; }
    Json o = Json::object();
    o.set("valid", Json::boolean(valid(x)));
    if (text != nullptr) o.set("text", Json::string(text(x)));
    rp.set("ok", o);
    return;
  }
  if (rq.op == "enum_sweep") {
    size_t tab = arg.find('\t');
    uint64_t lo, hi;
    if (tab == std::string::npos || !parse_u64(arg.substr(0, tab), lo) || !parse_u64(arg.substr(tab + 1), hi) || hi < lo || hi - lo >= (1u << 20)) {
      rp.unsupported("enum_sweep: expected <lo>\\t<hi>");
      return;
    }
    Json runs = Json::array();
    Json named = Json::object();
    bool have = false;
    uint64_t first = 0, count = 0;
    std::string cls;
    auto flush = [&]() {
      if (!have) return;
      Json r = Json::array();
      r.push(big(first));
      r.push(Json::number(count));
      r.push(Json::string(cls));
      runs.push(r);
    };
    for (uint64_t x = lo;; x++) {
      std::string k = !fits(x) ? "too_wide" : (valid(x) ? "ok" : "err");
      if (have && k == cls) {
        count++;
      } else {
        flush();
        have = true; first = x; count = 1; cls = k;
      }
      if (fits(x) && text != nullptr) {
        std::string t = text(x);
        if (t.rfind("Unknown ", 0) != 0) named.set(std::to_string(x), Json::string(t));
      }
      if (x == hi) break;
    }
    flush();
    Json o = Json::object();
    o.set("runs", runs);
    o.set("named", named);
    rp.set("ok", o);
    return;
  }
  rp.unsupported("unknown op " + rq.op + " for an enum type");
}

using DispatchFn = void (*)(Request const&, Reply&);
using Registry = std::map<std::string, DispatchFn>;

}  // namespace h3

// defined in the generated registry.cc
void h3_register_modules(h3::Registry& registry);
