import langprops


def run(tier, seed):
    return langprops.judge_c19(tier, seed)


def replay(path):
    return langprops.replay(path)
