import langprops


def run(tier, seed):
    return langprops.judge_c14(tier, seed)


def replay(path):
    return langprops.replay(path)
