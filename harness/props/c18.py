import rustprops


def run(tier, seed):
    return rustprops.judge_c18(tier, seed)


def replay(path):
    return rustprops.replay(path)
