import rustprops


def run(tier, seed):
    return rustprops.judge_c17(tier, seed)


def replay(path):
    return rustprops.replay(path)
