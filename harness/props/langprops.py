"""Judges for the other-backend properties (C07, C13, C14, C19) over lib/langs.py.

The oracle is the reference semantics (Sem/RefEncode.v, Sem/RefDecode.v). Every
disagreement is either explained by a LISTED finding (known-findings.json, matched by
language + kind of disagreement + a feature of the declaration / input that
identifies the generator site) or reported as a violation."""

import collections
import json

import common
import gen
import langs
import pdlast
import rustcodec
from rustprops import reachable, fields_of, norm, st, pl

LANG_PROP = {"python": "C13", "cxx": "C14", "cxx_ndebug": "C14", "java": "C19"}


def subvalue(a, b, spec_ok=False, depth=0):
    """every key of the reference value b is present in a with the same value
    (implementations may report extra keys, e.g. constrained fields).  spec_ok: the
    implementation specializes NESTED structs on its own (Python, Java): a nested object
    whose payload was parsed into a child's fields is not comparable with the reference's
    parent-level value"""
    if isinstance(b, dict) and isinstance(a, dict):
        if spec_ok and depth > 0 and "payload" in b and "payload" not in a:
            return True
        return all(k in a and subvalue(a[k], v, spec_ok, depth + 1) for k, v in b.items())
    if isinstance(b, list) and isinstance(a, list):
        return len(a) == len(b) and all(subvalue(x, y, spec_ok, depth + 1) for x, y in zip(a, b))
    return norm(a) == norm(b)


# --------------------------------------------------------------------------- features

def enums_of(env, ty):
    return [env.decls[t] for t in reachable(env, ty) if env.decls[t]["kind"] == "enum_declaration"]


def feat_enum_without_value_tags(env, ty, case):
    return any(not any("value" in t for t in e["tags"]) for e in enums_of(env, ty))


def feat_payload_size_modifier(env, ty, case):
    return any(f["kind"] == "payload_field" and f.get("size_modifier") for _, f in fields_of(env, ty))


def feat_is_child(env, ty, case):
    return bool(env.decls[ty].get("parent_id"))


def feat_has_children(env, ty, case):
    return bool(env.children(env.decls[ty]))


def feat_enum_array_or_optional(env, ty, case):
    for d, f in fields_of(env, ty):
        t = env.decls.get(f.get("type_id") or "")
        if t and t["kind"] == "enum_declaration" and (f["kind"] == "array_field" or f.get("cond")):
            return True
    return False


def feat_array_of_dynamic_struct(env, ty, case):
    for d, f in fields_of(env, ty):
        if f["kind"] == "array_field" and f.get("type_id"):
            t = env.decls.get(f["type_id"])
            if t and t["kind"] == "struct_declaration" and any(
                    g["kind"] in ("array_field", "payload_field", "body_field") or g.get("cond") for g in t["fields"]):
                return True
    return False


def feat_parent_fields_after_payload(env, ty, case):
    for p in env.parents(env.decls[ty]):
        seen = False
        for f in p["fields"]:
            if f["kind"] in ("payload_field", "body_field"):
                seen = True
            elif seen:
                return True
    return False


def feat_fields_after_payload(env, ty, case):
    for d in [env.decls[ty]] + env.parents(env.decls[ty]):
        seen = False
        for f in d["fields"]:
            if f["kind"] in ("payload_field", "body_field"):
                seen = True
            elif seen:
                return True
    return False


def feat_elementsize(env, ty, case):
    return any(f["kind"] == "elementsize_field" for _, f in fields_of(env, ty))


def chunk_widths(env, ty):
    """total widths of the bit-field groups of the declarations reachable from ty, and
    widths of scalar/enum array elements"""
    out = set()
    for t in reachable(env, ty):
        d = env.decls[t]
        acc = 0
        for f in d.get("fields", []):
            w = None
            k = f["kind"]
            if f.get("cond"):
                w = None
            elif k in ("scalar_field", "size_field", "count_field", "elementsize_field", "reserved_field"):
                w = f["width"]
            elif k == "fixed_field":
                w = f["width"] if "width" in f else env.decls[f["enum_id"]]["width"]
            elif k == "typedef_field" and env.decls.get(f["type_id"], {}).get("kind") == "enum_declaration":
                w = env.decls[f["type_id"]]["width"]
            if w is not None:
                acc += w
                if acc % 8 == 0:
                    out.add(acc)
                    acc = 0
            if k == "array_field":
                if f.get("width"):
                    out.add(f["width"])
                elif env.decls.get(f.get("type_id"), {}).get("kind") == "enum_declaration":
                    out.add(env.decls[f["type_id"]]["width"])
            if f.get("cond") and k == "scalar_field":
                out.add(f["width"])
    return out


def feat_odd_chunk(env, ty, case):
    return bool(chunk_widths(env, ty) & {24, 40, 48, 56})


def feat_fixed_in_group(env, ty, case):
    return any(f["kind"] == "fixed_field" for _, f in fields_of(env, ty))


def feat_wide_chunk_shift(env, ty, case):
    """a group wider than 32 bits holding a field of at most 32 bits above bit 0 (Java shifts ints)"""
    return any(w > 32 for w in chunk_widths(env, ty))


def feat_struct_typedef_or_array(env, ty, case):
    for d, f in fields_of(env, ty):
        t = env.decls.get(f.get("type_id") or "")
        if t and t["kind"] == "struct_declaration":
            return True
    return False


def feat_wide_enum(env, ty, case):
    return any(e["width"] > 8 for e in enums_of(env, ty))


def feat_count_or_size(env, ty, case):
    return any(f["kind"] in ("count_field", "size_field") for _, f in fields_of(env, ty))


def feat_padded_array(env, ty, case):
    return any(f["kind"] == "padding_field" for _, f in fields_of(env, ty))


def feat_typedef_of_derived_struct(env, ty, case):
    for t in reachable(env, ty):
        for f in env.decls[t].get("fields", []):
            x = env.decls.get(f.get("type_id") or "")
            if f["kind"] in ("typedef_field", "array_field") and x and x["kind"] == "struct_declaration" and x.get("parent_id"):
                return True
    return False


def feat_padded_array_after_unsized_payload(env, ty, case):
    for d in [env.decls[ty]] + env.parents(env.decls[ty]):
        fs = d["fields"]
        sized = any(f["kind"] == "size_field" and f.get("field_id") in ("_payload_", "_body_") for f in fs)
        seen = False
        for f in fs:
            if f["kind"] in ("payload_field", "body_field"):
                seen = not sized
            elif seen and f["kind"] == "padding_field":
                return True
    return False


def feat_subbyte_fields_under_sized_parent(env, ty, case):
    d = env.decls[ty]
    chain = env.parents(d)
    if not any(f["kind"] == "size_field" and f.get("field_id") in ("_payload_", "_body_") for a in chain for f in a["fields"]):
        return False
    for x in [d] + chain[:-1] if chain else [d]:
        for f in x["fields"]:
            if f["kind"] == "reserved_field":
                return True
            w = f.get("width") if f["kind"] in ("scalar_field", "size_field", "count_field", "elementsize_field", "fixed_field") else None
            if f["kind"] == "typedef_field" and env.decls.get(f["type_id"], {}).get("kind") == "enum_declaration":
                w = env.decls[f["type_id"]]["width"]
            if f["kind"] == "fixed_field" and "enum_id" in f:
                w = env.decls[f["enum_id"]]["width"]
            if w is not None and w % 8 != 0 and not f.get("cond"):
                return True
    return False


def feat_any(env, ty, case):
    return True


FEATURES = {k[5:]: v for k, v in globals().items() if k.startswith("feat_")}


def find_known(known, prop, lang, kind, env, ty, case):
    lang0 = "cxx" if lang.startswith("cxx") else lang
    for k in known:
        mt = k.get("match")
        if not mt or k.get("property") not in (prop, "*"):
            continue
        if mt.get("lang") not in (lang0, "*"):
            continue
        if kind not in mt.get("kinds", []):
            continue
        f = FEATURES.get(mt.get("feature", "any"))
        try:
            if f and f(env, ty, case):
                return k
        except Exception:   # noqa: BLE001
            continue
    return None


# --------------------------------------------------------------------------- classification

PY_DECODE_ERRORS = {"LengthError", "EnumValueError", "FixedValueError", "ArraySizeError", "TrailingBytesError",
                    "ConstraintValueError", "DecodeError", "UnwrapError", "TrailingBytesInArray"}


def classify_decode(lang, ty, r, ref):
    """-> (kind or None, detail). None = agreement."""
    rs = st(ref)
    if rs in ("unsupported", "diverge", "missing", "bad"):
        return None, None
    ref_accepts = rs == "ok" and pl(ref)[1] == ""
    s = st(r)
    p = pl(r) if isinstance(pl(r), dict) else {}
    if s == "unsupported":
        return None, None
    if s in ("abort", "timeout", "panic"):
        return "crash", {"status": s, "detail": str(pl(r))[:300]}
    if s == "ok":
        cls = p.get("type") or p.get("class")
        if lang in ("python", "java") and cls and cls != ty:
            # these parsers specialize on their own: an object of another class of the same
            # hierarchy comes back; its fields are not comparable with the reference value of `ty`
            return None, None
        if not ref_accepts:
            return "accepts-invalid:" + (pl(ref)[0] if rs == "err" else "TrailingBytesError"), p.get("value")
        if not subvalue(p.get("value"), json.loads(pl(ref)[0]), spec_ok=lang in ("python", "java")):
            return "value-differs", {"impl": p.get("value"), "ref": json.loads(pl(ref)[0])}
        return None, None
    if s == "err":
        if ref_accepts:
            return "rejects-valid", p
        if lang == "python" and not p.get("decode_error", p.get("variant") in PY_DECODE_ERRORS):
            return "non-decode-error:" + str(p.get("variant")), p
        return None, None
    return "no-reply", r


def classify_encode(lang, ty, r, ref):
    if st(ref) != "ok":
        return None, None
    s = st(r)
    p = pl(r) if isinstance(pl(r), dict) else {}
    if s == "unsupported":
        return None, None
    if s in ("abort", "timeout", "panic"):
        return "crash", {"status": s, "detail": str(pl(r))[:300]}
    if s == "ok":
        if p.get("hex") != pl(ref)[0]:
            return "bytes-differ", {"impl": p.get("hex"), "ref": pl(ref)[0]}
        if p.get("size") is not None and p.get("is_root", True) and lang in ("python", "cxx", "cxx_ndebug") \
                and p.get("size") != len(pl(ref)[0]) // 2:
            return "size-differs", {"size": p.get("size"), "len": len(pl(ref)[0]) // 2}
        return None, None
    if s == "err":
        return "encode-fails:" + str(p.get("variant")), p
    return "no-reply", r


class LCtx:
    def __init__(self, tier, seed):
        self.tier, self.seed = tier, seed
        self.data = langs.collect(tier, seed)
        self.asts = dict(langs.lang_modules(tier, seed))
        self.known = common.known_findings()
        self.violations = []
        self.known_hits = collections.OrderedDict()
        self.counts = collections.Counter()
        self.samples = []
        self.envs = {n: gen.TypeEnv(a) for n, a in self.asts.items()}

    def decl_text(self, name, ty):
        env = self.envs[name]
        order = []

        def walk(t):
            if t in order or t not in env.decls:
                return
            d = env.decls[t]
            if d.get("parent_id"):
                walk(d["parent_id"])
            for f in d.get("fields", []):
                for k in ("type_id", "enum_id"):
                    if f.get(k):
                        walk(f[k])
            order.append(t)
        walk(ty)
        return self.asts[name]["endianness"]["value"] + "_packets\n" + "\n".join(pdlast.decl_text(env.decls[t]) for t in order)

    def report(self, prop, lang, kind, name, ty, case, detail):
        env = self.envs[name]
        k = find_known(self.known, prop, lang, kind.split(":")[0] if kind.startswith("non-decode-error") else kind, env, ty, case) \
            or find_known(self.known, prop, lang, kind.split(":")[0], env, ty, case)
        self.counts[f"{lang}:{kind}"] += 1
        if k:
            self.known_hits.setdefault(k["id"], k["what"])
            self.counts["known"] += 1
            return
        if len(self.violations) < 40:
            self.violations.append({"property": prop, "language": lang, "kind": kind, "module": name, "type": ty,
                                    "pdl": self.decl_text(name, ty), "case": case, "observed": detail,
                                    "seed": self.seed, "tier": self.tier})
        self.counts["violations"] += 1

    def build_problems(self, prop, langs_):
        rep = self.data.get("report", {})
        for lang in langs_:
            r = rep.get(lang) or {}
            for kind in ("failed_modules", "uncompilable_modules"):
                for name, why in (r.get(kind) or {}).items():
                    if len(self.violations) < 40:
                        self.violations.append({"property": prop, "language": lang, "kind": "generated-code-does-not-build",
                                                "module": name, "observed": str(why)[:1500], "no_failing_input_found": True})
        for lang, e in (self.data.get("build_errors") or {}).items():
            if lang in langs_ or (lang == "cxx" and "cxx_ndebug" in langs_):
                self.violations.append({"property": prop, "language": lang, "kind": "harness-build-failed", "observed": e[:1500],
                                        "no_failing_input_found": True})

    def result(self, rule):
        cov = {"evaluations": int(self.counts["evaluations"]), "distinct_nontrivial": int(self.counts["nontrivial"]),
               "rule": rule, "samples": self.samples[:6], "disagreements_checked": int(self.counts["known"] + self.counts["violations"]),
               "distribution": {k: int(v) for k, v in self.counts.items()},
               "unsupported_declarations": {n: {l: len(b) for l, b in s.items()} for n, s in self.data.get("support", {}).items()}}
        return {"coverage": cov, "violations": self.violations,
                "known": [f"{fid}: {t}" for fid, t in self.known_hits.items()]}


def judge_lang(prop, lang_keys, tier, seed, rule):
    c = LCtx(tier, seed)
    c.build_problems(prop, lang_keys)
    for name, m in c.data["modules"].items():
        orc = m["oracle"]
        for lang in lang_keys:
            impl = m["impl"].get(lang)
            if impl is None:
                c.violations.append({"property": prop, "language": lang, "kind": "no-harness", "module": name, "no_failing_input_found": True})
                continue
            for i, (ty, v, cls) in enumerate(m["values"]):
                r = impl.get(f"e{i}")
                if r is None:
                    continue
                c.counts["evaluations"] += 1
                if isinstance(pl(r), dict):
                    pl(r)["is_root"] = not c.envs[name].decls[ty].get("parent_id")
                kind, detail = classify_encode(lang, ty, r, orc.get(f"re{i}"))
                if kind:
                    c.report(prop, lang, kind, name, ty, {"op": "encode", "value": v}, detail)
                elif st(r) == "ok":
                    c.counts["nontrivial"] += 1
            for j, (ty, hx, origin) in enumerate(m["inputs"]):
                r = impl.get(f"f{j}")
                if r is None:
                    continue
                c.counts["evaluations"] += 1
                kind, detail = classify_decode(lang, ty, r, orc.get(f"rf_{j}"))
                if kind:
                    c.report(prop, lang, kind, name, ty, {"op": "decode_full", "input": hx, "origin": origin}, detail)
                elif origin != "random":
                    c.counts["nontrivial"] += 1
        if m["inputs"] and len(c.samples) < 6:
            ty, hx, origin = m["inputs"][len(m["inputs"]) // 2]
            c.samples.append({"module": name, "type": ty, "input": hx, "origin": origin})
    return c.result(rule)


def judge_c13(tier, seed):
    return judge_lang("C13", ["python"], tier, seed,
                      "every Python-supported generated declaration (probed per declaration through backends::python::generate), both endiannesses: serialize() and .size of every well-formed value vs ref_encode; parse_all of reference encodings, their prefixes / appended bytes / byte mutants and random strings vs ref_decode (acceptance, field values, exception must be a DecodeError subclass)")


def judge_c14(tier, seed):
    return judge_lang("C14", ["cxx", "cxx_ndebug"], tier, seed,
                      "every C++-supported generated declaration, both endiannesses, two builds (ASan+UBSan with assertions; -DNDEBUG without sanitizers): Builder::Serialize / GetSize vs ref_encode; View::Create(bytes).IsValid() and every getter vs ref_decode on encodings, prefixes, mutants, random strings; any sanitizer report, failed assertion, signal or uncaught exception is a violation")


def judge_c19(tier, seed):
    return judge_lang("C19", ["java"], tier, seed,
                      "every Java-supported generated declaration, both endiannesses: toBytes vs ref_encode; fromBytes of reference encodings and single-fault mutants vs ref_decode (value or exception)")


def judge_c07(tier, seed):
    """pairwise agreement; a disagreement of backend X with the reference on a case where
    the others agree with it is a disagreement between X and them"""
    c = LCtx(tier, seed)
    c.build_problems("C07", ["python", "cxx", "java"])
    # Rust through the QUICK corpus in both tiers (the same descriptions as the other three
    # languages run; Rust against the reference on the thorough corpus is C03 / C04's subject)
    rust = rustcodec.collect("quick", seed)
    for name, m in c.data["modules"].items():
        orc = m["oracle"]
        rm = rust["modules"].get(name, {})
        rvals = {json.dumps(v, sort_keys=True) + "|" + ty: i for i, (ty, v, cls) in enumerate(rm.get("values", []))}
        rins = {ty + "|" + hx: j for j, (ty, hx, o) in enumerate(rm.get("inputs", []))}
        for i, (ty, v, cls) in enumerate(m["values"]):
            ref = orc.get(f"re{i}")
            if st(ref) != "ok":
                continue
            outs = {}
            for lang in ("python", "cxx", "java"):
                r = m["impl"].get(lang, {}).get(f"e{i}")
                if r is not None and st(r) == "ok":
                    outs[lang] = pl(r).get("hex")
            ri = rvals.get(json.dumps(v, sort_keys=True) + "|" + ty)
            if ri is not None:
                rr = rm["impl"]["dev"].get(f"e{ri}")
                if st(rr) == "ok" and "ok" in (pl(rr).get("vec") or {}):
                    outs["rust"] = pl(rr)["vec"]["ok"]
            if len(outs) < 2:
                continue
            c.counts["evaluations"] += 1
            if len(set(outs.values())) > 1:
                for lang, hx in outs.items():
                    if hx != pl(ref)[0]:
                        c.report("C07", lang, "bytes-differ", name, ty, {"op": "encode", "value": v, "all": outs}, {"impl": hx, "ref": pl(ref)[0]})
            else:
                c.counts["nontrivial"] += 1
        for j, (ty, hx, origin) in enumerate(m["inputs"]):
            ref = orc.get(f"rf_{j}")
            verdicts = {}
            for lang in ("python", "cxx", "java"):
                r = m["impl"].get(lang, {}).get(f"f{j}")
                if r is None or st(r) == "unsupported":
                    continue
                kind, detail = classify_decode(lang, ty, r, ref)
                verdicts[lang] = (kind, detail)
            rj = rins.get(ty + "|" + hx)
            if rj is not None:
                rr = rm["impl"]["dev"].get(f"f{rj}")
                if st(rr) in ("ok", "err"):
                    kind, detail = classify_decode("rust", ty, rr, ref)
                    verdicts["rust"] = (kind, detail)
            if len(verdicts) < 2:
                continue
            c.counts["evaluations"] += 1
            kinds = {k for k, _ in verdicts.values()}
            if kinds != {None}:
                for lang, (kind, detail) in verdicts.items():
                    if kind and not kind.startswith("non-decode-error"):
                        c.report("C07", lang, kind, name, ty, {"op": "decode_full", "input": hx, "origin": origin,
                                                                "others": {l: k for l, (k, _) in verdicts.items()}}, detail)
            else:
                c.counts["nontrivial"] += 1
        if m["values"] and len(c.samples) < 6:
            ty, v, cls = m["values"][len(m["values"]) // 3]
            c.samples.append({"module": name, "type": ty, "value": v})
    return c.result("descriptions in the intersection of what the Rust, Python, C++ and Java backends generate: bytes of every serializer on the same value, acceptance and field values of every parser on the same byte string, compared with each other through the reference; a packet written by one language is a `valid` input of all others")


def replay(path):
    v = json.loads(open(path).read())
    print(json.dumps({k: v.get(k) for k in ("property", "language", "kind", "module", "type", "case", "observed")}, indent=1))
    print("--- description ---")
    print(v.get("pdl", ""))
    return 0
