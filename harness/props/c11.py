"""C11 -- compilation is a deterministic pure function of the source.
Repeated in-process generation, repeated pdlc processes (distinct hash seeds),
library call vs command line, locality of --exclude-declaration."""

import collections
import json
import random
import subprocess

import analyzer_diff as ad
import common
import drv
import gen
import langs
import pdlast
import rustcodec

BACKENDS = ("rust", "python", "cxx", "json", "java")
CLI_BACKENDS = ("rust", "python", "cxx", "json")


def inheritance_heavy(rng, k):
    """many children / constraints / declarations: where hash-map iteration would show"""
    out = []
    for i in range(k):
        n = rng.randint(3, 7)
        e = pdlast.enum("K", 8, [pdlast.tag_v(f"T{j}", j) for j in range(n)])
        p = pdlast.packet("Root", [pdlast.typedef("k", "K"), pdlast.scalar("m", 8), pdlast.scalar("n", 8), pdlast.payload()])
        decls = [e, p]
        names = [f"Ch{chr(65 + j)}" for j in range(n)]
        rng.shuffle(names)
        for j, nm in enumerate(names):
            cs = [pdlast.constraint("k", tag_id=f"T{j}")]
            if rng.random() < 0.5:
                cs.append(pdlast.constraint("m", value=j))
            if rng.random() < 0.3:
                cs.append(pdlast.constraint("n", value=255 - j))
            rng.shuffle(cs)
            decls.append(pdlast.packet(nm, [pdlast.scalar("v", 8 * rng.randint(1, 3)), pdlast.payload()], parent_id="Root", constraints=cs))
            if rng.random() < 0.5:
                decls.append(pdlast.packet(nm + "Leaf", [pdlast.scalar("w", 8)], parent_id=nm))
        out.append((f"inh{i}", pdlast.file(rng.choice(["little_endian", "big_endian"]), decls)))
    return out


def forward_reference_heavy(rng, k):
    """declarations that USE several types / groups / parents declared LATER in the file: the
    analyzer hoists them; the order it picks must not depend on a hash seed"""
    out = []
    for i in range(k):
        n = rng.randint(3, 6)
        users, deps = [], []
        for j in range(n):
            kind = rng.choice(["struct", "enum", "group", "fixed", "array"])
            if kind == "struct":
                deps.append(pdlast.struct(f"S{j}", [pdlast.scalar("a", 8 * rng.randint(1, 3))]))
                users.append(pdlast.typedef(f"f{j}", f"S{j}"))
            elif kind == "enum":
                deps.append(pdlast.enum(f"E{j}", 8, [pdlast.tag_v("A", 0), pdlast.tag_v("B", 1 + j)]))
                users.append(pdlast.typedef(f"f{j}", f"E{j}"))
            elif kind == "fixed":
                deps.append(pdlast.enum(f"X{j}", 8, [pdlast.tag_v("A", 3), pdlast.tag_v("B", 9)]))
                users.append(pdlast.fixed_e(f"X{j}", "A"))
            elif kind == "group":
                deps.append(pdlast.group(f"G{j}", [pdlast.scalar(f"g{j}", 8)]))
                users.append(pdlast.group_f(f"G{j}", []))
            else:
                deps.append(pdlast.struct(f"T{j}", [pdlast.scalar("a", 16)]))
                users.append(pdlast.array(f"f{j}", type_id=f"T{j}", size=2))
        rng.shuffle(deps)
        head = pdlast.packet("User", users + [pdlast.payload()])
        kid = pdlast.packet("Kid", [pdlast.typedef("s", deps[0]["id"])] if deps[0]["kind"] == "struct_declaration" else [pdlast.scalar("z", 8)],
                            parent_id="User")
        out.append((f"fwd{i}", pdlast.file(rng.choice(["little_endian", "big_endian"]), [kid, head] + deps)))
    return out


MARKERS = {
    "rust": ["pub struct {} ", "pub enum {} ", "pub struct {}("],
    "python": ["class {}("],
    "cxx": ["class {}View {{", "enum class {} ", "class {} {{", "class {} :"],
}


def chunks(text, order, backend):
    """the generated text cut at the first occurrence of each declaration's marker, in
    generation order: {id: text of that declaration}"""
    starts = []
    for i in order:
        cand = [text.find(m.format(i)) for m in MARKERS[backend]]
        cand = [c for c in cand if c >= 0]
        if cand:
            starts.append((min(cand), i))
    starts.sort()
    out = {}
    for k, (st, i) in enumerate(starts):
        en = starts[k + 1][0] if k + 1 < len(starts) else len(text)
        lines = text[st:en].split("\n")
        # attributes / decorators / comments that introduce the NEXT declaration
        while lines and (not lines[-1].strip() or lines[-1].lstrip().startswith(("#[", "@", "//", "/*", "*", "template"))):
            lines.pop()
        out[i] = "\n".join(lines)
    return out


def derive_description(rng):
    """what the analyzer REWRITES before generation: groups (inlined), optional fields (flags),
    forward references (declarations sorted), group constraints (fixed fields)"""
    P = pdlast
    decls = [
        P.packet("Kid", [P.scalar("z", 8 * rng.randint(1, 3)), P.scalar("kc", 1), P.reserved(7),
                         P.scalar("ko", 16, cond=P.constraint("kc", 1))], parent_id="Base", constraints=[P.constraint("k", 2)]),
        P.packet("Kid2", [P.group_f("Trl", [P.constraint("tk", value=7)])], parent_id="Base", constraints=[P.constraint("k", 3)]),
        P.packet("Base", [P.scalar("k", 8), P.group_f("Hdr", [P.constraint("hk", tag_id="A")]),
                          P.scalar("c", 1), P.scalar("d", 1), P.reserved(6),
                          P.scalar("a", 16, cond=P.constraint("c", 1)), P.typedef("b", "St", cond=P.constraint("d", 0)),
                          P.typedef("s", "St"), P.size_f("_payload_", 8), P.payload()]),
        P.group("Hdr", [P.scalar("hx", 8), P.typedef("hk", "En")]),
        P.group("Trl", [P.scalar("tx", 8), P.scalar("tk", 8)]),
        P.struct("St", [P.scalar("n", 8), P.count_f("v", 8), P.array("v", width=16)]),
        P.enum("En", 8, [P.tag_v("A", 1), P.tag_v("B", 2), P.tag_o("Other")]),
        P.packet("Opt", [P.scalar("c", 1), P.reserved(7), P.scalar("a", 8, cond=P.constraint("c", 1)),
                         P.scalar("b", 16, cond=P.constraint("c", 0)), P.typedef("e", "En")]),
    ]
    return P.file(rng.choice(["little_endian", "big_endian"]), decls)


def derive_check(tier, seed, counts, violations, samples):
    """pdl_derive's attribute macros against the command-line tool: the SAME description
    compiled both ways into one crate, the same requests sent to both modules"""
    import rust_harness
    rng = random.Random(seed)
    pdlc = common.build_pdlc()
    text = pdlast.to_pdl(derive_description(rng))
    mods = [{"name": "dvcli", "pdl": text, "exclude": []},
            {"name": "dvmac", "pdl": text, "exclude": [], "via": "derive"},
            {"name": "dvinl", "pdl": text, "exclude": [], "via": "derive_inline"}]
    with common.locked("cargo-harness-derive"):
        binary = rust_harness.build(mods, common.CACHE / "rust-harness-derive", "dev", pdlc,
                                    common.CACHE / "target-harness-derive")
    rep = json.loads((common.CACHE / "rust-harness-derive" / "build_report.json").read_text())
    for kind in ("failed_modules", "uncompilable_modules"):
        for name, why in (rep.get(kind) or {}).items():
            violations.append({"kind": "derive-module-does-not-build", "module": name, "text": text, "observed": str(why)[:1500]})
    if rep.get("failed_modules") or rep.get("uncompilable_modules"):
        return
    p = common.sh([str(pdlc), "--output-format", "json", "/dev/stdin"], input=text.encode(), check=False)
    ast = pdlast.strip_loc(json.loads(p.stdout))
    env, values, vr = rustcodec.plan_module("dvcli", ast, tier, seed, None)
    reqs = []
    for i, (ty, v, cls) in enumerate(values):
        reqs.append((f"e{i}", ty, "encode", json.dumps(v)))
    for d in env.codec_types():
        reqs.append((f"df{d['id']}", d["id"], "default", ""))
    first = rust_harness.run(binary, [(k, "dvcli", ty, op, arg) for k, ty, op, arg in reqs], timeout_s=120)
    hexes = []
    for i, (ty, v, cls) in enumerate(values):
        st, pl = first.get(f"e{i}", ("missing", None))
        hx = ((pl or {}).get("vec") or {}).get("ok") if isinstance(pl, dict) else None
        if hx is not None:
            for m in [hx] + vr.sample(gen.mutate_bytes(hx, vr, 2), 6)[:6]:
                hexes.append((ty, m))
                for a_ in env.parents(env.decls[ty]):
                    hexes.append((a_["id"], m))
    hexes = list(dict.fromkeys(hexes))
    for j, (ty, hx) in enumerate(hexes):
        reqs.append((f"d{j}", ty, "decode", hx))
        if env.children(env.decls[ty]):
            reqs.append((f"s{j}", ty, "specialize", hx))
    out = {m: rust_harness.run(binary, [(k, m, ty, op, arg) for k, ty, op, arg in reqs], timeout_s=180)
           for m in ("dvcli", "dvmac", "dvinl")}
    for k, ty, op, arg in reqs:
        a = out["dvcli"].get(k)
        counts["evaluations"] += 1
        for m in ("dvmac", "dvinl"):
            b = out[m].get(k)
            if a != b:
                violations.append({"kind": "derive-macro-behaves-differently-from-pdlc", "macro": "pdl" if m == "dvmac" else "pdl_inline",
                                   "type": ty, "op": op, "arg": arg[:400], "text": text,
                                   "observed": {"pdlc": a, "macro": b}})
            else:
                counts["nontrivial"] += 1
    samples.append({"kind": "derive", "requests": len(reqs), "types": [d["id"] for d in env.codec_types()]})


def run(tier, seed):
    binary = langs.drv_binary()
    pdlc = common.build_pdlc()
    quick = tier == "quick"
    rng = random.Random(seed)
    violations = []
    counts = collections.Counter()
    samples = []
    pool = forward_reference_heavy(rng, 8 if quick else 60)
    pool += inheritance_heavy(rng, 6 if quick else 80)
    pool += [(f"wf{i}", ad.wellformed(rng)) for i in range(25 if quick else 300)]
    pool += rustcodec.modules_for(tier, seed)[:1]
    texts = [(n, pdlast.to_pdl(a)) for n, a in pool]

    # ---- 1. twice in the same process
    for backend in BACKENDS:
        out = drv.run(binary, [(f"{i}", "generate2", t, backend, "name=in.pdl") for i, (_, t) in enumerate(texts)], timeout_s=240)
        for i, (n, t) in enumerate(texts):
            s, p = out.get(f"{i}", ("missing", None))
            if s != "ok":
                continue
            counts["evaluations"] += 1
            counts["nontrivial"] += 1
            if not p.get("equal", False):
                violations.append({"kind": "two-generations-in-one-process-differ", "backend": backend, "name": n, "text": t[:3000]})
    # ---- 2. separate processes (fresh SipHash keys), command line vs library call
    tmp = common.CACHE / "c11"
    tmp.mkdir(exist_ok=True)
    procs = 6 if quick else 16
    lib = {b: drv.run(binary, [(f"{i}", "generate", t, b, "name=" + str(tmp / f"{n}.pdl")) for i, (n, t) in enumerate(texts[:14 if quick else 60])], timeout_s=240)
           for b in CLI_BACKENDS}
    for i, (n, t) in enumerate(texts[:14 if quick else 60]):
        f = tmp / f"{n}.pdl"
        f.write_text(t)
        for backend in CLI_BACKENDS:
            outs = set()
            rc = None
            for _ in range(procs):
                p = subprocess.run([str(pdlc), "--output-format", backend, str(f)], capture_output=True,
                                   env={"RUST_BACKTRACE": "0"}, timeout=120)
                rc = p.returncode
                outs.add(p.stdout)
            if rc != 0:
                continue
            counts["evaluations"] += procs
            counts["nontrivial"] += 1
            if len(outs) != 1:
                violations.append({"kind": "output-differs-between-processes", "backend": backend, "name": n, "text": t[:3000],
                                   "observed": {"distinct_outputs": len(outs)}})
                continue
            s, pl = lib[backend].get(f"{i}", ("missing", None))
            if s == "ok":
                cli = next(iter(outs)).decode("utf-8", errors="replace")
                if cli.rstrip("\n") != pl["text"].rstrip("\n"):
                    violations.append({"kind": "command-line-and-library-output-differ", "backend": backend, "name": n, "text": t[:3000]})
        f.unlink()
    # ---- 3. excluding a leaf declaration changes nothing for the others
    for n, a in pool[: (10 if quick else 60)]:
        env = gen.TypeEnv(a)
        used = set()
        for d in a["declarations"]:
            for f in d.get("fields", []):
                for k in ("type_id", "enum_id", "group_id"):
                    if f.get(k):
                        used.add(f[k])
            if d.get("parent_id"):
                used.add(d["parent_id"])
        leaves = [d["id"] for d in a["declarations"] if d.get("id") and d["id"] not in used
                  and d["kind"] in ("packet_declaration", "struct_declaration")]
        t = pdlast.to_pdl(a)
        for backend in ("rust", "python", "cxx"):
            reqs = [("all", "generate", t, backend, "name=in.pdl")] + [(x, "generate", t, backend, "name=in.pdl", f"exclude={x}") for x in leaves[:4]]
            out = drv.run(binary, reqs, timeout_s=240)
            if out.get("all", ("",))[0] != "ok":
                continue
            full = out["all"][1]["text"]
            order = [d["id"] for d in a["declarations"] if d.get("id") and d["kind"] != "group_declaration"]
            for x in leaves[:4]:
                s, p = out.get(x, ("missing", None))
                if s != "ok":
                    continue
                related = {x} | {q["id"] for q in env.parents(env.decls[x])}
                ca = chunks(full, order, backend)
                cb = chunks(p["text"], [i for i in order if i != x], backend)
                for y in order:
                    if y in related or y not in ca or y not in cb:
                        continue
                    counts["evaluations"] += 1
                    if ca[y] != cb[y]:
                        violations.append({"kind": "excluding-a-declaration-changed-unrelated-code", "backend": backend, "name": n,
                                           "excluded": x, "changed": y, "text": t[:3000]})
                    else:
                        counts["nontrivial"] += 1
        if len(samples) < 4:
            samples.append({"name": n, "leaves_excluded": leaves[:4]})
    # ---- 4. the attribute macros of pdl_derive vs the command-line tool
    derive_check(tier, seed, counts, violations, samples)
    cov = {"evaluations": int(counts["evaluations"]), "distinct_nontrivial": int(counts["nontrivial"]),
           "rule": "descriptions with many children / shuffled constraint lists / many declarations: generate twice in-process for rust, python, cxx, json, java; pdlc run in 6 (16 thorough) separate processes per backend and compared byte for byte with each other and with the library call; for each leaf declaration, --exclude-declaration output must be the full output minus one contiguous block; one description compiled through #[pdl(file)], #[pdl_inline(text)] and pdlc into one crate: encode / default / decode / specialize replies must be identical",
           "samples": samples, "distribution": {k: int(v) for k, v in counts.items()}, "disagreements_checked": len(violations)}
    return {"coverage": cov, "violations": violations[:40], "known": [],
            "assumptions": ["the pdl_derive macros are exercised on ONE description per run (groups, group constraints, optional fields, forward references, inheritance): compiling a crate per description is not affordable"]}


def replay(path):
    print(open(path).read())
    return 0
