"""C16 -- static size annotations are sound.
Implementation: analyzer::Schema queried through the in-process driver.
Model: Analyzer/Schema.v (oracle op `schema`) + reference encodings (Sem/RefEncode.v)."""

import collections
import json
import random

import common
import drv
import gen
import langs
import oracle
import pdlast
import rustcodec


def descriptions(tier, seed):
    """(name, ast): the codec modules plus many cheap extra shapes (nothing is compiled)"""
    out = list(rustcodec.modules_for(tier, seed))
    n = 6 if tier == "quick" else 40
    for i in range(n):
        e = "little_endian" if i % 2 == 0 else "big_endian"
        out.append((f"x{i}", gen.codec_module(seed * 7919 + i + 1, e, "", "quick")))
    return out


def size_str(s):
    return s  # both sides use "static:n" | "dynamic" | "unknown"


def literal_reading(env, d, f, rest):
    """what the property text says a field's class must be, given its own description"""
    k = f["kind"]
    if f.get("cond"):
        return {"dynamic"}
    if k in ("payload_field", "body_field"):
        has = any(g["kind"] == "size_field" and g["field_id"] in ("_payload_", "_body_") for g in d["fields"])
        return {"dynamic"} if has else {"unknown"}
    if k == "array_field" and f.get("size") is None:
        has = any(g["kind"] in ("size_field", "count_field") and g["field_id"] == f["id"] for g in d["fields"])
        return {"dynamic"} if has else {"unknown"}
    return None     # decided by the element / typedef declaration


def run(tier, seed):
    binary = langs.drv_binary()
    common.build_oracle()
    violations = []
    counts = collections.Counter()
    samples = []
    rng = random.Random(seed)
    for name, ast in descriptions(tier, seed):
        text = pdlast.to_pdl(ast)
        r = drv.run(binary, [(name, "schema", text)])[name]
        if r[0] != "ok":
            violations.append({"kind": "analyzer-rejects-or-crashes-on-a-wellformed-description", "module": name,
                               "observed": r, "pdl": text[:3000]})
            continue
        analyzed = pdlast.strip_loc(r[1]["ast"])
        impl = r[1]["schema"]["decls"]
        sx = pdlast.to_sexp(analyzed)
        env = gen.TypeEnv(analyzed)
        cases = ["(s schema 0 _)"]
        # reference encodings of generated values for every codec type
        vals = []
        for d in env.codec_types():
            for v in gen.gen_values(env, d, rng, 3 if tier == "quick" else 6):
                vals.append((d["id"], v))
                cases.append(f"(e{len(vals) - 1} ref-encode 200 {d['id']} {pdlast.value_sexp(v)})")
        o = rustcodec.run_oracle_sharded(sx, cases)
        model = {}
        if o.get("s", ("",))[0] != "ok":
            violations.append({"kind": "model-schema-failed", "module": name, "observed": o.get("s"), "no_failing_input_found": True})
            continue
        for line in o["s"][1][0].split("\\n"):
            parts = line.split("|")
            if len(parts) < 6:
                model[parts[0]] = None
                continue
            fields = [x.split(",") for x in parts[5].split(";")] if parts[5] else []
            model[parts[0]] = {"decl": parts[1], "parent": parts[2], "payload": parts[3], "total": parts[4], "fields": fields}
        for did, im in impl.items():
            mo = model.get(did)
            counts["declarations"] += 1
            if mo is None:
                violations.append({"kind": "model-has-no-entry", "module": name, "decl": did, "no_failing_input_found": True})
                continue
            for a, b in (("decl_size", "decl"), ("parent_size", "parent"), ("payload_size", "payload"), ("total_size", "total")):
                counts["evaluations"] += 1
                if str(im[a]) != mo[b]:
                    violations.append({"kind": "schema-differs-from-model", "module": name, "decl": did, "query": a,
                                       "observed": im[a], "expected": mo[b],
                                       "pdl": pdlast.decl_text(env.decls[did]) if did in env.decls else ""})
            d = env.decls.get(did)
            for idx, fi in enumerate(im.get("fields", [])):
                if idx >= len(mo["fields"]):
                    break
                kind, fsz, pad, esz, asz = mo["fields"][idx]
                counts["evaluations"] += 1
                counts["field:" + str(fi["field_size"]).split(":")[0]] += 1
                got = (str(fi["field_size"]), "-" if fi["padded_size"] is None else str(fi["padded_size"]),
                       "-" if fi.get("element_size") is None else str(fi["element_size"]),
                       "-" if fi.get("array_size") is None else str(fi["array_size"]))
                want = (fsz, pad, esz, asz)
                if got != want:
                    violations.append({"kind": "field-annotation-differs-from-model", "module": name, "decl": did, "field": idx,
                                       "observed": got, "expected": want, "pdl": pdlast.decl_text(d) if d else ""})
                # the literal reading of the statement
                if d is not None and idx < len(d.get("fields", [])):
                    lit = literal_reading(env, d, d["fields"][idx], d["fields"][idx + 1:])
                    cls = str(fi["field_size"]).split(":")[0]
                    if lit is not None and cls not in lit:
                        violations.append({"kind": "classification-contradicts-the-declaration", "module": name, "decl": did,
                                           "field": idx, "observed": fi["field_size"], "expected": sorted(lit),
                                           "pdl": pdlast.decl_text(d)})
        # Static n => every encoding occupies exactly n bits
        for i, (ty, v) in enumerate(vals):
            e = o.get(f"e{i}")
            if not e or e[0] != "ok":
                continue
            tot = impl.get(ty, {}).get("total_size", "")
            counts["evaluations"] += 1
            if str(tot).startswith("static:"):
                n = int(str(tot).split(":")[1])
                counts["nontrivial"] += 1
                if n != 4 * len(e[1][0]):
                    violations.append({"kind": "static-size-is-not-the-encoding-size", "module": name, "decl": ty,
                                       "value": v, "observed": {"total_size": tot, "encoded_bits": 4 * len(e[1][0])},
                                       "pdl": pdlast.decl_text(env.decls[ty])})
        if len(samples) < 5:
            did = next(iter(impl))
            samples.append({"module": name, "decl": did, "schema": {k: impl[did][k] for k in ("decl_size", "parent_size", "payload_size", "total_size")}})
    cov = {"evaluations": int(counts["evaluations"]), "distinct_nontrivial": int(counts["nontrivial"]),
           "rule": "every declaration and field of the generated descriptions (inherited sizes, nested typedefs, padded arrays, optional fields): Schema::{decl,parent,payload,total,field,padded}_size, element_size, array_size vs the Coq model; the literal reading Dynamic <=> delimited / Unknown <=> nothing delimits; Static n vs the bit length of reference encodings of generated values (non-trivial = a value of a statically sized declaration)",
           "samples": samples, "distribution": {k: int(v) for k, v in counts.items()}, "disagreements_checked": len(violations)}
    return {"coverage": cov, "violations": violations[:40], "known": []}


def replay(path):
    print(open(path).read())
    return 0
