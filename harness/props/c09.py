"""C09 -- well-formed input is accepted regardless of order / layout; groups behave as
inlined.  Implementation through the in-process driver; the analyzer model agrees
with it on every description (C08's correspondence)."""

import collections
import copy
import itertools
import json
import random

import analyzer_diff as ad
import common
import drv
import gen
import langs
import pdlast
import rustcodec


def permutations_of(decls, rng, quick):
    n = len(decls)
    if n <= (4 if quick else 5):
        perms = list(itertools.permutations(range(n)))[1:]
    else:
        perms = []
        for _ in range(6 if quick else 24):
            p = list(range(n))
            rng.shuffle(p)
            perms.append(tuple(p))
        perms.append(tuple(reversed(range(n))))
    return perms


def by_id(ast):
    return {d.get("id", "?"): d for d in pdlast.strip_loc(ast)["declarations"]}


def inline_by_the_book(ast):
    """doc/reference.md 'Group': a group field inlines the group's fields; a constrained
    scalar / enum typedef becomes a fixed field of the same width / type"""
    groups = {d["id"]: d for d in ast["declarations"] if d["kind"] == "group_declaration"}

    def expand(fields, cs):
        out = []
        for f in fields:
            if f["kind"] == "group_field":
                inner = dict(cs)
                for c in f.get("constraints", []):
                    inner[c["id"]] = c
                out += expand(groups[f["group_id"]]["fields"], inner)
            elif f["kind"] == "scalar_field" and f["id"] in cs:
                out.append({"kind": "fixed_field", "width": f["width"], "value": cs[f["id"]]["value"], "cond": f.get("cond")})
            elif f["kind"] == "typedef_field" and f["id"] in cs:
                out.append({"kind": "fixed_field", "enum_id": f["type_id"], "tag_id": cs[f["id"]]["tag_id"], "cond": f.get("cond")})
            else:
                out.append(copy.deepcopy(f))
        return out
    decls = []
    for d in ast["declarations"]:
        if d["kind"] == "group_declaration":
            continue
        d = copy.deepcopy(d)
        if "fields" in d:
            d["fields"] = expand(d["fields"], {})
        decls.append(d)
    out = dict(ast)
    out["declarations"] = decls
    return out


def grouped_descriptions(rng, n):
    """well-formed descriptions using groups nested up to depth 3 with scalar and enum
    constraints (a group constraint names a field of the group it is attached to)"""
    out = []
    for i in range(n):
        e = pdlast.enum("E", 8, [pdlast.tag_v("A", 1), pdlast.tag_v("B", 2), pdlast.tag_r("R", 10, 20, [pdlast.tag_v("RA", 11)])])
        w1, w2 = rng.choice([(8, 8), (4, 12), (3, 5), (16, 16)])
        g3 = pdlast.group("G3", [pdlast.scalar("z", w1), pdlast.typedef("k", "E")])
        c3 = []
        if rng.random() < 0.6:
            c3.append(pdlast.constraint("k", tag_id=rng.choice(["A", "B"])))
        if rng.random() < 0.4:
            c3.append(pdlast.constraint("z", value=rng.randrange(1 << w1)))
        g2 = pdlast.group("G2", [pdlast.scalar("y", w2), pdlast.group_f("G3", c3)])
        g1 = pdlast.group("G1", [pdlast.scalar("x", 8),
                                 pdlast.group_f("G2", [pdlast.constraint("y", value=rng.randrange(1 << w2))] if rng.random() < 0.6 else []),
                                 pdlast.size_f("arr", 8), pdlast.array("arr", width=rng.choice([8, 16]))])
        cs = [pdlast.constraint("x", value=rng.randrange(256))] if rng.random() < 0.5 else []
        p = pdlast.packet("P", [pdlast.scalar("h", 8), pdlast.group_f("G1", cs), pdlast.payload()])
        c = pdlast.packet("C", [pdlast.scalar("q", 8)], parent_id="P", constraints=[pdlast.constraint("h", value=3)])
        pad = (8 - w1 % 8) % 8
        s = pdlast.struct("S", [pdlast.group_f("G3", [pdlast.constraint("z", value=0)])] + ([pdlast.reserved(pad)] if pad else []) + [pdlast.scalar("t", 8)])
        decls = [p, g1, c, e, g2, s, g3]
        rng.shuffle(decls)
        out.append((f"grp{i}", pdlast.file(rng.choice(["little_endian", "big_endian"]), decls)))
    return out


def run(tier, seed):
    binary = langs.drv_binary()
    rng = random.Random(seed)
    quick = tier == "quick"
    violations, known_hits = [], collections.OrderedDict()
    known = common.known_findings()
    counts = collections.Counter()
    samples = []

    # ---- 1. well-formed descriptions are accepted
    wf = [(f"wf{i}", ad.wellformed(rng)) for i in range(120 if quick else 1200)]
    wf += rustcodec.modules_for(tier, seed)
    wf += grouped_descriptions(rng, 40 if quick else 300)
    res = ad.run_impl([pdlast.to_pdl(a) for _, a in wf], "analyze")
    accepted = {}
    for (name, ast), (s, p) in zip(wf, res):
        counts["evaluations"] += 1
        if s != "ok":
            violations.append({"kind": "well-formed-description-not-accepted", "name": name, "pdl": pdlast.to_pdl(ast)[:3000],
                               "observed": [s, json.dumps(p)[:600]]})
        else:
            accepted[name] = (ast, p["ast"])

    # ---- 2. declaration order is irrelevant (verdict, code set, analyzed declarations)
    pool = [(n, a) for n, a in wf if len(a["declarations"]) <= 12]
    pool += [("c:" + n, a) for n, a in ad.corpus(seed + 1, 150 if quick else 1500) if len(a["declarations"]) <= 8]
    jobs = []
    for name, ast in pool:
        for pi, perm in enumerate(permutations_of(ast["declarations"], rng, quick)):
            v = dict(ast)
            v["declarations"] = [ast["declarations"][k] for k in perm]
            jobs.append((name, ast, v))
    base = ad.run_impl([pdlast.to_pdl(a) for _, a in pool], "analyze")
    base_out = {name: ad.impl_outcome(*r) for (name, _), r in zip(pool, base)}
    base_ast = {name: (r[1]["ast"] if r[0] == "ok" else None) for (name, _), r in zip(pool, base)}
    perm_res = ad.run_impl([pdlast.to_pdl(v) for _, _, v in jobs], "analyze")
    for (name, ast, v), r in zip(jobs, perm_res):
        counts["evaluations"] += 1
        counts["nontrivial"] += 1
        a, b = base_out[name], ad.impl_outcome(*r)
        same = a[0] == b[0]
        if same and a[0] == "rejected":
            same = set(a[1].split(",")) == set(b[1].split(","))
        if same and a[0] == "ok":
            same = by_id(base_ast[name]) == by_id(r[1]["ast"])
        if not same:
            f = next((x for x in known if x["property"] == "C09" and x.get("kind") == "order-dependent"
                      and any(m in json.dumps([a, b]) for m in x.get("panic_markers", []))), None)
            if f:
                known_hits.setdefault(f["id"], f["what"])
                counts["known"] += 1
            else:
                violations.append({"kind": "verdict-depends-on-declaration-order", "name": name,
                                   "pdl": pdlast.to_pdl(ast)[:2500], "permuted": pdlast.to_pdl(v)[:2500],
                                   "observed": {"original": a[:2], "permuted": b[:2]}})

    # ---- 3. groups behave as their inlined text (analysis and generated code)
    gjobs = []
    for name, ast in wf:
        if any(d["kind"] == "group_declaration" for d in ast["declarations"]) and name in accepted:
            # Same declaration order as the analyzed grouped file, so that the generated
            # declarations come out in the same order (a group changes WHEN its types are
            # first visited by the declaration sort, never what is generated for them)
            flat = inline_by_the_book(ast)
            order = [d.get("id") for d in accepted[name][1]["declarations"]]
            fd = {d.get("id"): d for d in flat["declarations"]}
            flat["declarations"] = [fd[i] for i in order if i in fd] + [d for d in flat["declarations"] if d.get("id") not in order]
            gjobs.append((name, ast, flat))
    inl = ad.run_impl([pdlast.to_pdl(b) for _, _, b in gjobs], "analyze")
    for (name, ast, flat), (s, p) in zip(gjobs, inl):
        counts["evaluations"] += 1
        counts["nontrivial"] += 1
        if s != "ok":
            violations.append({"kind": "inlined-text-not-accepted", "name": name, "pdl": pdlast.to_pdl(flat)[:3000], "observed": [s, json.dumps(p)[:500]]})
            continue
        if by_id(accepted[name][1]) != by_id(p["ast"]):
            violations.append({"kind": "group-analysis-differs-from-inlined-text", "name": name, "pdl": pdlast.to_pdl(ast)[:3000],
                               "inlined": pdlast.to_pdl(flat)[:3000]})
    for backend in ("rust", "python", "cxx"):
        reqs = []
        for k, (name, ast, flat) in enumerate(gjobs):
            reqs.append((f"g{k}", "generate", pdlast.to_pdl(ast), backend, "name=x.pdl"))
            reqs.append((f"f{k}", "generate", pdlast.to_pdl(flat), backend, "name=x.pdl"))
        out = drv.run(binary, reqs, timeout_s=120) if reqs else {}
        for k, (name, ast, flat) in enumerate(gjobs):
            a, b = out.get(f"g{k}"), out.get(f"f{k}")
            if not a or not b:
                continue
            counts["evaluations"] += 1
            if a[0] == "ok" and b[0] == "ok":
                if a[1].get("text") != b[1].get("text"):
                    violations.append({"kind": "generated-code-differs-from-inlined-text", "backend": backend, "name": name,
                                       "pdl": pdlast.to_pdl(ast)[:3000]})
            elif a[0] != b[0]:
                violations.append({"kind": "generation-verdict-differs-from-inlined-text", "backend": backend, "name": name,
                                   "pdl": pdlast.to_pdl(ast)[:3000], "observed": {"grouped": a[0], "inlined": b[0]}})
        if gjobs and len(samples) < 3:
            samples.append({"kind": "groups", "backend": backend, "name": gjobs[0][0], "pdl": pdlast.to_pdl(gjobs[0][1])[:600]})
    if pool:
        samples.append({"kind": "permutation", "name": pool[0][0], "declarations": len(pool[0][1]["declarations"])})
    cov = {"evaluations": int(counts["evaluations"]), "distinct_nontrivial": int(counts["nontrivial"]),
           "rule": "well-formed generator output (incl. group nestings to depth 3 with scalar and enum constraints) must be accepted; every description (well-formed and ill-formed) under all permutations of <= 4 declarations (sampled beyond): verdict, set of codes, analyzed declarations by id; grouped vs textually inlined source: analyzed declarations and generated Rust/Python/C++ text",
           "samples": samples, "distribution": {k: int(v) for k, v in counts.items()},
           "disagreements_checked": len(violations) + int(counts["known"])}
    return {"coverage": cov, "violations": violations[:40], "known": [f"{a}: {b}" for a, b in known_hits.items()]}


def replay(path):
    print(open(path).read())
    return 0
