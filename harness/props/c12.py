"""C12 -- parser fidelity.  Implementation: parser::parse_inline through the in-process
driver.  Model: the PEG interpreter of Front/Peg.v run on the grammar REGENERATED from
/repo's parser.rs on every run (tools/pest2coq.py), the tree walk of Front/TreeWalk.v."""

import collections
import json
import random

import common
import parser_diff as pd
import pdlast

KEYWORD = {"enum_declaration": "enum", "packet_declaration": "packet", "struct_declaration": "struct",
           "group_declaration": "group", "checksum_declaration": "checksum",
           "custom_field_declaration": "custom_field", "test_declaration": "test"}

# deviations from doc/reference.md that are listed findings: (id, text that the reference accepts)
WITNESSES = [
    ("fixed-F10", "little_endian_packets\npacket P { a: 8, _payload_ }\npacket C : P (a = 1,) {}\n"),
    ("F16", "little_endian_packets"),
    ("F17", "little_endian_packets\npacket/*c*/P {}\n"),
]


def line_starts(text_bytes):
    out = [0]
    for i, b in enumerate(text_bytes):
        if b == 0x0A:
            out.append(i + 1)
    return out


def walk_locs(ast):
    """(kind, node) for every located node"""
    yield "endianness", ast["endianness"]
    for d in ast["declarations"]:
        yield d["kind"], d
        for c in d.get("constraints", []) or []:
            yield "constraint", c
        for f in d.get("fields", []) or []:
            yield f["kind"], f
            if f.get("cond"):
                yield "constraint", f["cond"]
            for c in f.get("constraints", []) or []:
                yield "constraint", c
        for t in d.get("tags", []) or []:
            yield "tag", t
            for x in t.get("tags", []) or []:
                yield "tag", x
    for c in ast.get("comments", []):
        yield "comment", c


def check_locations(text, ast):
    """-> list of problems with the source ranges of one parsed file"""
    raw = text.encode("utf-8")
    starts = line_starts(raw)
    probs = []
    for kind, node in walk_locs(ast):
        loc = node.get("loc")
        if not loc:
            probs.append((kind, "no loc"))
            continue
        s, e = loc["start"], loc["end"]
        if not (0 <= s["offset"] <= e["offset"] <= len(raw)):
            probs.append((kind, "range not ordered / outside the file", loc))
            continue
        for p in (s, e):
            ln = p["line"]
            if ln >= len(starts) or starts[ln] + p["column"] != p["offset"] or (ln + 1 < len(starts) and starts[ln + 1] <= p["offset"]):
                probs.append((kind, "line/column inconsistent with offset", p))
        piece = raw[s["offset"]:e["offset"]].decode("utf-8", errors="replace")
        if kind in KEYWORD and not piece.startswith(KEYWORD[kind]):
            probs.append((kind, "range does not start at the declaration keyword", piece[:30]))
        if kind == "tag" and not piece.startswith(node["id"]):
            probs.append((kind, "range does not start at the tag identifier", piece[:30]))
        if kind == "constraint" and not piece.startswith(node["id"]):
            probs.append((kind, "range does not start at the constrained identifier", piece[:30]))
        if kind in ("scalar_field", "typedef_field", "array_field") and not piece.startswith(node["id"]):
            probs.append((kind, "range does not start at the field identifier", piece[:30]))
        if kind == "comment" and not (piece.startswith("//") or piece.startswith("/*")) :
            probs.append((kind, "range is not a comment", piece[:30]))
        if kind == "comment" and node.get("text") != piece:
            probs.append((kind, "comment text differs from the source slice", piece[:30]))
    return probs


def run(tier, seed):
    oracle, binary = pd.prepare(True)
    rng = random.Random(seed)
    quick = tier == "quick"
    violations, known_hits = [], collections.OrderedDict()
    counts = collections.Counter()
    samples = []
    known = common.known_findings()

    # ---- A. what was written is what is parsed (independent of the model)
    cases = []
    for i in range(500 if quick else 5000):
        f = pd.rfile(rng)
        lay = pd.Layout(rng, density=rng.choice([0.0, 0.1, 0.3, 0.6, 0.95]), p_bad_kw=0.0, p_glue=0.0,
                        comments=rng.random() < 0.8, cr_comments=False)
        cases.append((f, pd.layout_text(pd.file_tokens(f, rng, 0.0), lay)))
    for f in pd.handmade_files():
        for _ in range(3 if quick else 20):
            lay = pd.Layout(rng, density=rng.choice([0.1, 0.5, 0.9]), p_bad_kw=0.0, p_glue=0.0)
            cases.append((f, pd.layout_text(pd.file_tokens(f, rng, 0.0), lay)))
    impl = pd.impl_parse(binary, [("a%d" % k, t) for k, (_, t) in enumerate(cases)])
    for k, (f, text) in enumerate(cases):
        r = impl.get("a%d" % k, ("missing", None))
        counts["evaluations"] += 1
        counts["nontrivial"] += 1
        want = drop_tests(f)
        if r[0] != "ok":
            if any(ord(c) > 0x10FFFF for c in text):
                continue
            conv = too_big_literal(f)
            if conv:
                counts["literal-above-usize"] += 1
                continue
            violations.append({"kind": "valid-text-rejected", "text": text[:3000], "observed": [r[0], json.dumps(r[1])[:400]]})
            continue
        got = pdlast.strip_loc(r[1]["ast"])
        if pdlast.to_sexp(got) != pdlast.to_sexp(want):
            violations.append({"kind": "ast-differs-from-what-was-written", "text": text[:3000],
                               "observed": pdlast.to_sexp(got)[:1500], "expected": pdlast.to_sexp(want)[:1500]})
        # print / parse round trip
        for p in check_locations(text, r[1]["ast"])[:3]:
            violations.append({"kind": "source-range", "text": text[:3000], "observed": p})
        if len(samples) < 4 and k % 173 == 0:
            samples.append({"text": text[:300]})
    # round trip through our printer
    rt_texts = [pdlast.to_pdl(drop_tests(f)) for f, _ in cases[:300 if quick else 3000]]
    rt = pd.impl_parse(binary, [("r%d" % k, t) for k, t in enumerate(rt_texts)])
    for k, t in enumerate(rt_texts):
        r = rt.get("r%d" % k, ("missing", None))
        counts["evaluations"] += 1
        if r[0] == "ok":
            again = pdlast.to_pdl(pdlast.strip_loc(r[1]["ast"]))
            if again != t:
                violations.append({"kind": "print-parse-print-not-a-fixpoint", "text": t[:2000], "observed": again[:2000]})

    # ---- B. the model (regenerated grammar) says the same on every text, valid or not
    corpus = pd.corpus(seed, 1200 if quick else 12000)
    ctexts = [(cid, t) for cid, _, t in corpus]
    impl2 = pd.impl_parse(binary, ctexts)
    model2 = pd.model_parse(ctexts, oracle)
    for k, (cid, cat, text) in enumerate(corpus):
        counts["evaluations"] += 1
        counts["cat:" + cat] += 1
        ir = impl2.get(cid)
        mr = model2.get(cid)
        if ir is None or mr is None:
            continue
        if ir[0] in ("panic", "abort", "timeout"):
            counts["parser-crashed"] += 1       # C10's business
            continue
        d = pd.compare(text, ir, mr)
        if d:
            counts["disagreements"] += 1
            violations.append({"kind": "model-correspondence", "category": cat, "text": text[:3000], "observed": str(d)[:1500],
                               "no_failing_input_found": True})
        elif ir[0] == "ok":
            for p in check_locations(text, ir[1]["ast"])[:2]:
                violations.append({"kind": "source-range", "category": cat, "text": text[:3000], "observed": p})
    # ---- C. listed deviations from the reference grammar
    wimpl = pd.impl_parse(binary, [("w%d" % k, t) for k, (_, t) in enumerate(WITNESSES)])
    for k, (fid, text) in enumerate(WITNESSES):
        r = wimpl.get("w%d" % k, ("missing", None))
        f = next((x for x in known if x["id"] == fid and x["property"] == "C12"), None)
        if r[0] != "ok":
            if f:
                known_hits.setdefault(fid, f["what"])
            else:
                violations.append({"kind": "reference-syntax-rejected", "text": text, "observed": [r[0], json.dumps(r[1])[:300]]})
    cov = {"evaluations": int(counts["evaluations"]), "distinct_nontrivial": int(counts["nontrivial"]),
           "rule": "random ASTs covering every declaration / field / tag / constraint kind rendered with randomized concrete syntax (decimal, 0x, 0X, mixed-case hex, leading zeros, trailing commas, spaces/tabs/CR/LF, // and /* */ comments between any two tokens, keyword-adjacent identifiers): parsed AST must equal the written one, our printer must be a fixpoint, every source range must be ordered, inside the file, line/column-consistent and start at the node's text; plus model = implementation (AST, all locations, comments) on valid texts, token/character mutants, repository files, doc snippets and random soup with the grammar regenerated from parser.rs",
           "samples": samples, "distribution": {k: int(v) for k, v in counts.items()},
           "disagreements_checked": int(counts["disagreements"])}
    return {"coverage": cov, "violations": violations[:40], "known": [f"{a}: {b}" for a, b in known_hits.items()]}


def drop_tests(f):
    out = dict(f)
    out["declarations"] = [d for d in f["declarations"] if d["kind"] != "test_declaration"]
    return out


def too_big_literal(x):
    if isinstance(x, dict):
        return any(too_big_literal(v) for k, v in x.items() if k != "size_modifier")
    if isinstance(x, list):
        return any(too_big_literal(v) for v in x)
    return isinstance(x, int) and not isinstance(x, bool) and x >= (1 << 64)


def replay(path):
    print(open(path).read())
    return 0
