"""C10 -- the compiler never crashes and whatever it accepts becomes compilable code.
Stages run through the in-process driver (catch_unwind around parse / analyze /
generate, fresh process after an abort), the shared Rust / Python / C++ / Java stages
provide the "compiles" half."""

import collections
import json
import random

import analyzer_diff as ad
import common
import drv
import gen
import langs
import parser_diff as pd
import pdlast
import rustcodec

BACKENDS = ("json", "rust", "python", "cxx", "java")
UNSUPPORTED_MARKERS = ("not yet implemented", "not implemented", "unsupported", "Cannot yet serialize")


def is_unsupported(payload):
    m = (payload or {}).get("message", "") if isinstance(payload, dict) else str(payload)
    return any(x in m for x in UNSUPPORTED_MARKERS)


def match_known(known, stage, backend, payload):
    msg = (payload or {}).get("message", "") if isinstance(payload, dict) else str(payload)
    loc = (payload or {}).get("location", "") if isinstance(payload, dict) else ""
    for k in known:
        if k.get("property") != "C10":
            continue
        m = k.get("panic")
        if not m:
            continue
        if m.get("stage") not in (stage, "*"):
            continue
        if m.get("backend") not in (backend, None, "*"):
            continue
        if m.get("file") and m["file"] not in loc:
            continue
        if any(s in msg for s in m.get("message_contains", [])):
            return k
    return None


def run(tier, seed):
    binary = langs.drv_binary()
    common.build_oracle()
    quick = tier == "quick"
    rng = random.Random(seed)
    known = common.known_findings()
    violations, known_hits = [], collections.OrderedDict()
    counts = collections.Counter()
    samples = []

    def crash(stage, backend, text, status, payload):
        k = match_known(known, stage, backend, payload)
        if k and status == "panic":
            known_hits.setdefault(k["id"], k["what"])
            counts["known"] += 1
            return
        violations.append({"kind": f"{stage}-crashed", "backend": backend, "status": status,
                           "text": text[:3000], "observed": json.dumps(payload)[:800]})

    # ---- (i) parser: any text gives an AST or a diagnostic
    texts = [t for _, _, t in pd.corpus(seed + 17, 700 if quick else 8000)]
    for _ in range(150 if quick else 2000):
        texts.append(pd.soup(rng))
    texts.append("little_endian_packets\n" + "packet P { " * 400)
    texts.append("little_endian_packets\nenum E : 8 { " + ", ".join(f"A{i} = {i}" for i in range(3000)) + " }\n")
    texts.append("little_endian_packets\n/*" + "x" * 200000)
    res = drv.run(binary, [(f"p{i}", "parse", t) for i, t in enumerate(texts)], timeout_s=60)
    for i, t in enumerate(texts):
        s, p = res.get(f"p{i}", ("missing", None))
        counts["evaluations"] += 1
        counts["parse:" + s] += 1
        if s not in ("ok", "err"):
            crash("parse", None, t, s, p)

    # ---- (ii) analyzer: any parsed file gives an analyzed file or diagnostics
    ds = ad.corpus(seed + 5, 900 if quick else 8000)
    atexts = [pdlast.to_pdl(a) for _, a in ds]
    ares = ad.run_impl(atexts, "analyze")
    parsed = ad.run_impl(atexts, "parse")
    keep = [i for i, (s, p) in enumerate(parsed) if s == "ok"]
    model = ad.run_model([pdlast.to_sexp(pdlast.strip_loc(parsed[i][1]["ast"])) for i in keep])
    mo = {i: ad.model_outcome(*model[k]) for k, i in enumerate(keep)}
    accepted = []
    for i, (s, p) in enumerate(ares):
        counts["evaluations"] += 1
        counts["analyze:" + s] += 1
        if s == "ok":
            accepted.append((ds[i][0], atexts[i]))
        elif s == "err":
            pass
        else:
            # the faithful model transcribes every known panic site: a panic it predicts
            # at a listed site is a known finding, anything else is new
            m = mo.get(i)
            site = (m[1] if m and m[0] == "panic" else None)
            k = None
            if s == "panic" and m and m[0] == "panic":
                k = next((x for x in known if x.get("property") == "C10" and x.get("analyzer_site")
                          and x["analyzer_site"] in str(m)), None)
            if k:
                known_hits.setdefault(k["id"], k["what"])
                counts["known"] += 1
            else:
                violations.append({"kind": "analyze-crashed", "status": s, "text": atexts[i][:3000],
                                   "observed": json.dumps(p)[:600], "model": str(m)[:300]})
    counts["nontrivial"] += len(accepted)

    # ---- (iii) every backend returns code for what the analyzer accepted
    # well-formed descriptions only: what the analyzer accepts although it is ill-formed is
    # C08's subject, and backends are entitled to assume the language rules
    pool = [(n, t) for n, t in accepted if n.startswith("wf")][: (120 if quick else 1500)]
    wf_extra = [(f"wfx{i}", pdlast.to_pdl(ad.wellformed(rng))) for i in range(60 if quick else 600)]
    ok_extra = ad.run_impl([t for _, t in wf_extra], "analyze")
    pool += [x for x, r in zip(wf_extra, ok_extra) if r[0] == "ok"]
    pool += [(n, pdlast.to_pdl(a)) for n, a in rustcodec.modules_for(tier, seed)]
    for backend in BACKENDS:
        reqs = [(f"g{i}", "generate", t, backend) for i, (_, t) in enumerate(pool)]
        out = drv.run(binary, reqs, timeout_s=180)
        for i, (name, t) in enumerate(pool):
            s, p = out.get(f"g{i}", ("missing", None))
            counts["evaluations"] += 1
            counts[f"gen:{backend}:{s}"] += 1
            if s == "ok":
                if backend == "python":
                    try:
                        compile(p["text"], f"{name}.py", "exec")
                    except SyntaxError as e:
                        violations.append({"kind": "generated-python-is-not-valid-syntax", "text": t[:3000], "observed": str(e)})
                continue
            if s == "err":
                violations.append({"kind": "generate-rejects-an-accepted-description", "backend": backend, "text": t[:3000],
                                   "observed": json.dumps(p)[:500]})
            elif s == "panic" and is_unsupported(p):
                counts[f"gen:{backend}:unsupported-construct"] += 1
            else:
                crash("generate", backend, t, s, p)
        if pool and len(samples) < 5:
            samples.append({"backend": backend, "description": pool[0][0]})

    # ---- (iv) what was generated for the shared corpora compiles (rustc, g++, javac, CPython)
    rc = rustcodec.collect(tier, seed)
    for profile, rep in (rc.get("report") or {}).items():
        for kind in ("failed_modules", "uncompilable_modules"):
            for name, why in (rep.get(kind) or {}).items():
                violations.append({"kind": "generated-rust-does-not-build", "module": name, "profile": profile,
                                   "observed": str(why)[:1500]})
        counts["evaluations"] += 1
    lg = langs.collect(tier, seed)
    for lang, rep in (lg.get("report") or {}).items():
        for kind in ("failed_modules", "uncompilable_modules"):
            for name, why in ((rep or {}).get(kind) or {}).items():
                violations.append({"kind": f"generated-{lang}-does-not-build", "module": name, "observed": str(why)[:1500]})
        counts["evaluations"] += 1
    # declarations left out of those corpora because of a listed finding
    for name, per in (lg.get("support") or {}).items():
        for lang, bad in per.items():
            for did, why in bad.items():
                st = str(why.get("status", ""))
                if st.startswith("F3"):
                    fid = st.split("-")[0]
                    k = next((x for x in known if x["id"] == fid), None)
                    if k:
                        known_hits.setdefault(fid, k["what"])
                elif st == "panic" and not is_unsupported(why.get("detail")):
                    k = match_known(known, "generate", lang, why.get("detail"))
                    if k:
                        known_hits.setdefault(k["id"], k["what"])
                    else:
                        violations.append({"kind": "generate-crashed", "backend": lang, "declaration": did, "module": name,
                                           "observed": json.dumps(why)[:600]})
    cov = {"evaluations": int(counts["evaluations"]), "distinct_nontrivial": int(counts["nontrivial"]),
           "rule": "source texts (rendered ASTs with random layout, token and character mutants, repository files, random valid-UTF-8 soup, pathological nesting / length) -> parse; generated well-formed, ill-formed, absurd and chaotic ASTs -> analyze (model-predicted panics at listed sites are known findings); every accepted description -> generate for json/rust/python/cxx/java (todo!() on an unsupported construct is outside the property); the shared corpora must build with rustc (dev+release), g++ (two builds), javac, and compile() for Python; non-trivial = an accepted description",
           "samples": samples, "distribution": {k: int(v) for k, v in counts.items()},
           "disagreements_checked": len(violations) + int(counts["known"])}
    return {"coverage": cov, "violations": violations[:40], "known": [f"{a}: {b}" for a, b in known_hits.items()]}


def replay(path):
    print(open(path).read())
    return 0
