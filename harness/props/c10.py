"""C10 -- the compiler never crashes and whatever it accepts becomes compilable code.
Stages run through the in-process driver (catch_unwind around parse / analyze /
generate, fresh process after an abort), the shared Rust / Python / C++ / Java stages
provide the "compiles" half."""

import collections
import json
import random

import analyzer_diff as ad
import common
import drv
import gen
import langs
import parser_diff as pd
import pdlast
import rustcodec

BACKENDS = ("json", "rust", "python", "cxx", "java")
UNSUPPORTED_MARKERS = ("not yet implemented", "not implemented", "unsupported", "Cannot yet serialize")


def is_unsupported(payload):
    m = (payload or {}).get("message", "") if isinstance(payload, dict) else str(payload)
    return any(x in m for x in UNSUPPORTED_MARKERS)


def match_known(known, stage, backend, payload):
    msg = (payload or {}).get("message", "") if isinstance(payload, dict) else str(payload)
    loc = (payload or {}).get("location", "") if isinstance(payload, dict) else ""
    for k in known:
        if k.get("property") != "C10":
            continue
        m = k.get("panic")
        if not m:
            continue
        if m.get("stage") not in (stage, "*"):
            continue
        if m.get("backend") not in (backend, None, "*"):
            continue
        if m.get("file") and m["file"] not in loc:
            continue
        if any(s in msg for s in m.get("message_contains", [])):
            return k
    return None


# ---- shapes the analyzer accepts although they are ill-formed (C08's findings) for which the
# ---- Rust generator then emits code that does not type-check: listed, matched by shape + error

def _expand(ast, fields, depth=0):
    groups = {d["id"]: d for d in ast["declarations"] if d["kind"] == "group_declaration"}
    out = []
    for f in fields:
        if f["kind"] == "group_field" and f["group_id"] in groups and depth < 8:
            out += _expand(ast, groups[f["group_id"]]["fields"], depth + 1)
        else:
            out.append(f)
    return out


def shape_size_after_array(ast):
    for d in ast["declarations"]:
        fs = _expand(ast, d.get("fields", []) or [])
        seen = set()
        for f in fs:
            if f["kind"] == "array_field":
                seen.add(f["id"])
            if f["kind"] == "payload_field":
                seen.add("_payload_")
            if f["kind"] == "body_field":
                seen.add("_body_")
            if f["kind"] in ("size_field", "count_field", "elementsize_field") and f.get("field_id") in seen:
                return True
    return False


def shape_fixed_range_tag(ast):
    enums = {d["id"]: d for d in ast["declarations"] if d["kind"] == "enum_declaration"}
    for d in ast["declarations"]:
        for f in _expand(ast, d.get("fields", []) or []):
            if f["kind"] == "fixed_field" and f.get("enum_id") in enums:
                if any(t["id"] == f.get("tag_id") and "value" not in t for t in enums[f["enum_id"]]["tags"]):
                    return True
    return False


def _all_group_fields(ast):
    for d in ast["declarations"]:
        stack = list(d.get("fields", []) or [])
        for f in stack:
            if f["kind"] == "group_field":
                yield f


def shape_group_constraint_names_non_value_tag(ast):
    """`G { x = T }` where T is a range or the default tag: inlined as a fixed field (see F53)"""
    enums = {d["id"]: d for d in ast["declarations"] if d["kind"] == "enum_declaration"}
    groups = {d["id"]: d for d in ast["declarations"] if d["kind"] == "group_declaration"}
    for gf in _all_group_fields(ast):
        g = groups.get(gf["group_id"])
        for c in gf.get("constraints", []) or []:
            if not (g and c.get("tag_id")):
                continue
            for f in _expand(ast, g["fields"]):
                e = enums.get(f.get("type_id"))
                if f.get("id") == c["id"] and e and any(t["id"] == c["tag_id"] and "value" not in t for t in e["tags"]):
                    return True
    return False


def shape_duplicate_field_through_groups(ast):
    for d in ast["declarations"]:
        if d["kind"] == "group_declaration":
            continue
        ids = [f["id"] for f in _expand(ast, d.get("fields", []) or []) if f.get("id")]
        if len(ids) != len(set(ids)):
            return True
    return False


def _chain(ast, d):
    by = {x["id"]: x for x in ast["declarations"] if "id" in x}
    out, hops = [], 0
    while d is not None and hops < 32:
        out.append(d)
        d = by.get(d.get("parent_id")) if d.get("parent_id") else None
        hops += 1
    return out


def shape_constraint_on_optional(ast):
    for d in ast["declarations"]:
        cs = {c["id"] for c in d.get("constraints", []) or []}
        if cs and any(f.get("id") in cs and f.get("cond") for a in _chain(ast, d)[1:] for f in _expand(ast, a.get("fields", []) or [])):
            return True
    return False


def shape_constraint_names_default_tag(ast):
    enums = {d["id"]: d for d in ast["declarations"] if d["kind"] == "enum_declaration"}
    for d in ast["declarations"]:
        for c in d.get("constraints", []) or []:
            if not c.get("tag_id"):
                continue
            for a in _chain(ast, d)[1:]:
                for f in _expand(ast, a.get("fields", []) or []):
                    e = enums.get(f.get("type_id"))
                    if f.get("id") == c["id"] and e and any(t["id"] == c["tag_id"] and "value" not in t and "range" not in t for t in e["tags"]):
                        return True
    return False


def shape_unsized_payload_then_dynamic(ast):
    """an unsized payload / body followed (in the same declaration) by a field whose size is
    not a constant: optional, array without constant size, struct of dynamic size, padding"""
    for d in ast["declarations"]:
        fs = _expand(ast, d.get("fields", []) or [])
        sized = {f.get("field_id") for f in fs if f["kind"] == "size_field"}
        for i, f in enumerate(fs):
            if f["kind"] in ("payload_field", "body_field") and not ({"_payload_", "_body_"} & sized):
                for g in fs[i + 1:]:
                    if g.get("cond") or g["kind"] in ("padding_field",) or g["kind"] == "typedef_field" or \
                            (g["kind"] == "array_field" and (g.get("size") is None or g.get("type_id"))):
                        return True
    return False


def shape_elementsize_of_non_struct(ast):
    structs = {d["id"] for d in ast["declarations"] if d["kind"] == "struct_declaration"}
    for d in ast["declarations"]:
        fs = _expand(ast, d.get("fields", []) or [])
        es = {f["field_id"] for f in fs if f["kind"] == "elementsize_field"}
        if any(f["kind"] == "array_field" and f["id"] in es and f.get("type_id") not in structs for f in fs):
            return True
    return False


def shape_constraint_on_flag(ast):
    """a constraint (of a child or of a group use) on a field that conditions an optional field"""
    flags = {f["cond"]["id"] for d in ast["declarations"] for f in d.get("fields", []) or [] if f.get("cond")}
    for d in ast["declarations"]:
        if any(c["id"] in flags for c in d.get("constraints", []) or []):
            return True
        for f in d.get("fields", []) or []:
            if f["kind"] == "group_field" and any(c["id"] in flags for c in f.get("constraints", []) or []):
                return True
    return False


def shape_payload_modifier_without_size(ast):
    for d in ast["declarations"]:
        fs = _expand(ast, d.get("fields", []) or [])
        if any(f["kind"] == "payload_field" and f.get("size_modifier") for f in fs) and \
                not any(f["kind"] == "size_field" and f.get("field_id") == "_payload_" for f in fs):
            return True
    return False


def shape_huge_array(ast):
    return any(f["kind"] == "array_field" and (f.get("size") or 0) >= (1 << 31)
               for d in ast["declarations"] for f in d.get("fields", []) or [])


def needs_user_glue(ast):
    """custom fields without a width and checksums are types the USER provides"""
    return any((d["kind"] == "custom_field_declaration" and not d.get("width")) or d["kind"] == "checksum_declaration"
               for d in ast["declarations"])


SHAPES = {k[6:]: v for k, v in globals().items() if k.startswith("shape_")}


def rustc_metadata(texts, workers=16):
    """type-check generated Rust modules (rustc --emit=metadata against the pdl-runtime the
    harness crate was built with): [(ok, first error lines)]"""
    import concurrent.futures
    import hashlib
    import subprocess
    # the dev-profile build of the harness crate (lib/rust_harness.py: target-harness/<profile>/debug/deps)
    deps = None
    for cand in [common.TARGET_HARNESS / "dev" / "debug" / "deps", common.TARGET_HARNESS / "debug" / "deps"] + \
            sorted(common.TARGET_HARNESS.glob("*/debug/deps")):
        if list(cand.glob("libpdl_runtime-*.rlib")) and list(cand.glob("libbytes-*.rlib")):
            deps = cand
            break
    if deps is None:
        return None
    rt = sorted(deps.glob("libpdl_runtime-*.rlib"), key=lambda p: p.stat().st_mtime)
    by = sorted(deps.glob("libbytes-*.rlib"), key=lambda p: p.stat().st_mtime)
    work = common.CACHE / "c10"
    work.mkdir(exist_ok=True)

    def one(it):
        k, t = it
        h = "%d_%s" % (k, hashlib.sha1(t.encode()).hexdigest()[:12])
        src = work / f"{h}.rs"
        src.write_text(t)
        p = subprocess.run(["rustc", "--edition", "2021", "--crate-type", "lib", "--emit=metadata", "-A", "warnings",
                            "-L", f"dependency={deps}",
                            "--extern", f"pdl_runtime={rt[-1]}", "--extern", f"bytes={by[-1]}",
                            "--crate-name", f"m{h}", str(src), "-o", str(work / f"{h}.rmeta")],
                           capture_output=True, timeout=300)
        for f in (src, work / f"{h}.rmeta"):
            try:
                f.unlink()
            except OSError:
                pass
        err = [l for l in p.stderr.decode(errors="replace").split("\n") if l.startswith("error")]
        return p.returncode == 0, err[:3]
    with concurrent.futures.ThreadPoolExecutor(max_workers=workers) as ex:
        return list(ex.map(one, list(enumerate(texts))))


def run(tier, seed):
    binary = langs.drv_binary()
    common.build_oracle()
    quick = tier == "quick"
    rng = random.Random(seed)
    known = common.known_findings()
    violations, known_hits = [], collections.OrderedDict()
    counts = collections.Counter()
    samples = []

    def crash(stage, backend, text, status, payload):
        k = match_known(known, stage, backend, payload)
        if k and status == "panic":
            known_hits.setdefault(k["id"], k["what"])
            counts["known"] += 1
            return
        violations.append({"kind": f"{stage}-crashed", "backend": backend, "status": status,
                           "text": text[:3000], "observed": json.dumps(payload)[:800]})

    # ---- (i) parser: any text gives an AST or a diagnostic
    texts = [t for _, _, t in pd.corpus(seed + 17, 700 if quick else 8000)]
    for _ in range(150 if quick else 2000):
        texts.append(pd.soup(rng))
    texts.append("little_endian_packets\n" + "packet P { " * 400)
    texts.append("little_endian_packets\nenum E : 8 { " + ", ".join(f"A{i} = {i}" for i in range(3000)) + " }\n")
    texts.append("little_endian_packets\n/*" + "x" * 200000)
    res = drv.run(binary, [(f"p{i}", "parse", t) for i, t in enumerate(texts)], timeout_s=60)
    for i, t in enumerate(texts):
        s, p = res.get(f"p{i}", ("missing", None))
        counts["evaluations"] += 1
        counts["parse:" + s] += 1
        if s not in ("ok", "err"):
            crash("parse", None, t, s, p)

    # ---- (ii) analyzer: any parsed file gives an analyzed file or diagnostics
    ds = ad.corpus(seed + 5, 900 if quick else 8000)
    atexts = [pdlast.to_pdl(a) for _, a in ds]
    ares = ad.run_impl(atexts, "analyze")
    parsed = ad.run_impl(atexts, "parse")
    keep = [i for i, (s, p) in enumerate(parsed) if s == "ok"]
    model = ad.run_model([pdlast.to_sexp(pdlast.strip_loc(parsed[i][1]["ast"])) for i in keep])
    mo = {i: ad.model_outcome(*model[k]) for k, i in enumerate(keep)}
    accepted = []
    for i, (s, p) in enumerate(ares):
        counts["evaluations"] += 1
        counts["analyze:" + s] += 1
        if s == "ok":
            accepted.append((ds[i][0], atexts[i]))
        elif s == "err":
            pass
        else:
            # the faithful model transcribes every known panic site: a panic it predicts
            # at a listed site is a known finding, anything else is new
            m = mo.get(i)
            site = (m[1] if m and m[0] == "panic" else None)
            k = None
            if s == "panic" and m and m[0] == "panic":
                k = next((x for x in known if x.get("property") == "C10" and x.get("analyzer_site")
                          and x["analyzer_site"] in str(m)), None)
            if k:
                known_hits.setdefault(k["id"], k["what"])
                counts["known"] += 1
            else:
                violations.append({"kind": "analyze-crashed", "status": s, "text": atexts[i][:3000],
                                   "observed": json.dumps(p)[:600], "model": str(m)[:300]})
    counts["nontrivial"] += len(accepted)

    # ---- (iii) every backend returns code for what the analyzer accepted
    # well-formed descriptions only: what the analyzer accepts although it is ill-formed is
    # C08's subject, and backends are entitled to assume the language rules
    pool = [(n, t) for n, t in accepted if n.startswith("wf")][: (120 if quick else 1500)]
    wf_asts = [(f"wfx{i}", ad.wellformed(rng)) for i in range(60 if quick else 600)]
    wf_extra = [(n, pdlast.to_pdl(a)) for n, a in wf_asts]
    ok_extra = ad.run_impl([t for _, t in wf_extra], "analyze")
    pool += [x for x, r in zip(wf_extra, ok_extra) if r[0] == "ok"]
    pool += [(n, pdlast.to_pdl(a)) for n, a in rustcodec.modules_for(tier, seed)]
    # the quick Rust corpus in both tiers (the thorough one is built and run by the Rust family,
    # C01..C06: a build failure there is reported there); builds pdl-runtime from the working tree
    rc = rustcodec.collect("quick", seed)
    rust_texts = {}
    for backend in BACKENDS:
        reqs = [(f"g{i}", "generate", t, backend) for i, (_, t) in enumerate(pool)]
        out = drv.run(binary, reqs, timeout_s=180)
        for i, (name, t) in enumerate(pool):
            s, p = out.get(f"g{i}", ("missing", None))
            counts["evaluations"] += 1
            counts[f"gen:{backend}:{s}"] += 1
            if s == "ok":
                if backend == "rust":
                    rust_texts[i] = p["text"]
                if backend == "python":
                    try:
                        compile(p["text"], f"{name}.py", "exec")
                    except SyntaxError as e:
                        violations.append({"kind": "generated-python-is-not-valid-syntax", "text": t[:3000], "observed": str(e)})
                continue
            if s == "err":
                violations.append({"kind": "generate-rejects-an-accepted-description", "backend": backend, "text": t[:3000],
                                   "observed": json.dumps(p)[:500]})
            elif s == "panic" and is_unsupported(p):
                counts[f"gen:{backend}:unsupported-construct"] += 1
            else:
                crash("generate", backend, t, s, p)
        if pool and len(samples) < 5:
            samples.append({"backend": backend, "description": pool[0][0]})

    # ---- (iii-b) ... and the Rust emitted for EVERY description the analyzer accepts type-checks
    # (not only the well-formed pool: whatever is accepted must become compilable code)
    # (the absurd / chaos / enums corpora are ill-formed on purpose: what the analyzer lets
    # through there is C08's subject and an endless tail of generator failures)
    extra = [(n, t) for n, t in accepted if not n.startswith(("wf", "absurd", "chaos", "enums"))][: (400 if quick else 4000)]
    out = drv.run(binary, [(f"x{i}", "generate", t, "rust") for i, (_, t) in enumerate(extra)], timeout_s=240)
    asts = {ds[i][0]: pdlast.strip_loc(parsed[i][1]["ast"]) for i in keep}
    asts.update(dict(wf_asts))
    asts.update(dict(rustcodec.modules_for(tier, seed)))
    comp = [(n, t, rust_texts[i]) for i, (n, t) in enumerate(pool) if i in rust_texts and not (n in asts and needs_user_glue(asts[n]))]
    for i, (n, t) in enumerate(extra):
        s, p = out.get(f"x{i}", ("missing", None))
        counts[f"gen-any:rust:{s}"] += 1
        if s == "ok" and not (n in asts and needs_user_glue(asts[n])):
            comp.append((n, t, p["text"]))
    res = rustc_metadata([c[2] for c in comp])
    if res is None:
        raise common.Infra("pdl-runtime rlib of the harness build not found")
    for (n, t, _), (ok, err) in zip(comp, res):
        counts["evaluations"] += 1
        counts["rustc:" + ("ok" if ok else "error")] += 1
        if not ok:
            a = asts.get(n)
            k = next((x for x in known if x.get("property") == "C10" and x.get("rustc")
                      and a is not None and SHAPES[x["rustc"]["shape"]](a)
                      and any(m in " ".join(err) for m in x["rustc"]["error_contains"])), None)
            if k:
                known_hits.setdefault(k["id"], k["what"])
                counts["known"] += 1
            else:
                violations.append({"kind": "generated-rust-does-not-type-check", "name": n, "text": t[:3000], "observed": err})
    # ---- (iv) what was generated for the shared corpora compiles (rustc, g++, javac, CPython)
    for profile, rep in (rc.get("report") or {}).items():
        for kind in ("failed_modules", "uncompilable_modules"):
            for name, why in (rep.get(kind) or {}).items():
                violations.append({"kind": "generated-rust-does-not-build", "module": name, "profile": profile,
                                   "observed": str(why)[:1500]})
        counts["evaluations"] += 1
    lg = langs.collect(tier, seed)
    for lang, rep in (lg.get("report") or {}).items():
        for kind in ("failed_modules", "uncompilable_modules"):
            for name, why in ((rep or {}).get(kind) or {}).items():
                violations.append({"kind": f"generated-{lang}-does-not-build", "module": name, "observed": str(why)[:1500]})
        counts["evaluations"] += 1
    # declarations left out of those corpora because of a listed finding
    for name, per in (lg.get("support") or {}).items():
        for lang, bad in per.items():
            for did, why in bad.items():
                st = str(why.get("status", ""))
                if st.startswith(("F3", "F6")):
                    fid = st.split("-")[0]
                    k = next((x for x in known if x["id"] == fid), None)
                    if k:
                        known_hits.setdefault(fid, k["what"])
                elif st == "panic" and not is_unsupported(why.get("detail")):
                    k = match_known(known, "generate", lang, why.get("detail"))
                    if k:
                        known_hits.setdefault(k["id"], k["what"])
                    else:
                        violations.append({"kind": "generate-crashed", "backend": lang, "declaration": did, "module": name,
                                           "observed": json.dumps(why)[:600]})
    cov = {"evaluations": int(counts["evaluations"]), "distinct_nontrivial": int(counts["nontrivial"]),
           "rule": "source texts (rendered ASTs with random layout, token and character mutants, repository files, random valid-UTF-8 soup, pathological nesting / length) -> parse; generated well-formed, ill-formed, absurd and chaotic ASTs -> analyze (model-predicted panics at listed sites are known findings); every accepted description -> generate for json/rust/python/cxx/java (todo!() on an unsupported construct is outside the property); the shared corpora must build with rustc (dev+release), g++ (two builds), javac, and compile() for Python; non-trivial = an accepted description",
           "samples": samples, "distribution": {k: int(v) for k, v in counts.items()},
           "disagreements_checked": len(violations) + int(counts["known"])}
    return {"coverage": cov, "violations": violations[:40], "known": [f"{a}: {b}" for a, b in known_hits.items()]}


def replay(path):
    print(open(path).read())
    return 0
