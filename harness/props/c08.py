"""C08 -- the analyzer rejects every ill-formed description with a renderable diagnostic.
Implementation: analyzer::analyze + Diagnostics::emit through the in-process driver.
Model: Analyzer/{Passes,Analyze}.v (oracle op `analyze`)."""

import collections
import json

import analyzer_diff as ad
import common
import langs
import pdlast

# ---------------------------------------------------------------------------
# A declarative reading of the well-formedness rules (doc/reference.md), written
# without looking at how the analyzer checks them: each function returns the rule codes
# the description DEFINITELY violates.  `analyze` stops at the first pass that reports
# something, so a violation of pass j must show its code unless an earlier pass fired.

PASS = {}
for _p, _codes in enumerate([[1], [2, 3, 4, 5, 6, 7, 8, 9, 10], [11], [12, 13, 14, 40, 41, 43, 44],
                             [23, 24, 25, 26, 27, 28, 29, 30, 31], [32, 33, 34, 35], [36, 37], [38], [39],
                             [45, 46, 47, 48, 49], [15, 16, 17, 18, 19, 20, 21, 22, 42], [51], [52, 53]]):
    for _c in _codes:
        PASS.setdefault(f"E{_c}", _p)


def named_ids(fields):
    return [f["id"] for f in fields if f["kind"] in ("scalar_field", "typedef_field", "array_field") and "id" in f]


def definite_violations(ast):
    out = set()
    decls = ast["declarations"]
    ids = [d["id"] for d in decls if "id" in d]
    if len(ids) != len(set(ids)):
        out.add("E1")
    byid = {d["id"]: d for d in decls if "id" in d}
    for d in decls:
        k = d["kind"]
        fields = d.get("fields", [])
        if k in ("packet_declaration", "struct_declaration", "group_declaration"):
            n = named_ids(fields)
            if len(n) != len(set(n)):
                out.add("E11")
            if sum(1 for f in fields if f["kind"] in ("payload_field", "body_field")) > 1:
                out.add("E36")
            for i, f in enumerate(fields):
                fk = f["kind"]
                if fk == "group_field" and f["group_id"] not in byid:
                    out.add("E3")
                if fk in ("typedef_field", "array_field") and f.get("type_id") and f["type_id"] not in byid:
                    out.add("E5")
                if fk == "padding_field" and (i == 0 or fields[i - 1]["kind"] != "array_field"):
                    out.add("E39")
                if fk == "fixed_field" and "width" in f and f["width"] < 64 and f["value"] >= (1 << f["width"]):
                    out.add("E32")
                if fk == "array_field" and f.get("size") is not None and any(
                        g["kind"] in ("size_field", "count_field") and g.get("field_id") == f["id"] for g in fields):
                    out.add("E38")
                if fk in ("size_field", "count_field", "elementsize_field"):
                    tgt = f["field_id"]
                    if tgt not in ("_payload_", "_body_") and tgt not in named_ids(fields):
                        out.add({"size_field": "E24", "count_field": "E27", "elementsize_field": "E30"}[fk])
            sc = [f["field_id"] for f in fields if f["kind"] in ("size_field", "count_field")]
            if len(sc) != len(set(sc)):
                out.add("E23|E26")
            if d.get("parent_id") and k != "group_declaration" and d["parent_id"] not in byid:
                out.add("E7")
        if k == "enum_declaration":
            tids = [t["id"] for t in d["tags"]]
            if len(tids) != len(set(tids)):
                out.add("E12")
            vals = [t["value"] for t in d["tags"] if "value" in t]
            if len(vals) != len(set(vals)):
                out.add("E13")
            if d["width"] < 64 and any(v >= (1 << d["width"]) for v in vals):
                out.add("E14")
            if sum(1 for t in d["tags"] if "value" not in t and "range" not in t) > 1:
                out.add("E44")
    return out


def accepted_violations(ast):
    """rules whose violation makes acceptance wrong, whatever else is reported first:
    checked only against descriptions the analyzer ACCEPTS"""
    out = set()
    byid = {d["id"]: d for d in ast["declarations"] if "id" in d}
    for d in ast["declarations"]:
        if d["kind"] == "enum_declaration" and d["width"] < 64:
            # E40 / E14: every tag value and both bounds of every range fit the width
            mx = (1 << d["width"]) - 1
            for t in d["tags"]:
                if "range" in t and (t["range"]["start"] > mx or t["range"]["end"] > mx):
                    out.add("E40")
                for x in t.get("tags", []) or []:
                    if "value" in x and x["value"] > mx:
                        out.add("E14")
        if d["kind"] not in ("packet_declaration", "struct_declaration"):
            continue
        # E24: a size field for the payload / body of a declaration that has none of THAT kind
        kinds = {f["kind"] for f in d.get("fields", []) or []}
        for f in d.get("fields", []) or []:
            if f["kind"] == "size_field" and ((f.get("field_id") == "_payload_" and "payload_field" not in kinds)
                                              or (f.get("field_id") == "_body_" and "body_field" not in kinds)):
                out.add("E24")
        # E22: a field constrained twice, in one list or along the inheritance chain
        seen, cur, hops = [], d, 0
        while cur is not None and hops < 64:
            seen += [c["id"] for c in cur.get("constraints", []) or []]
            cur = byid.get(cur.get("parent_id")) if cur.get("parent_id") else None
            hops += 1
        if len(seen) != len(set(seen)):
            out.add("E22")
    return out


def reported(rule, codes):
    """the rule's code is among the diagnostics, or an earlier pass stopped the analysis"""
    alts = rule.split("|")
    if any(a in codes for a in alts):
        return True
    first = min((PASS.get(c, 99) for c in codes), default=99)
    return first < min(PASS[a] for a in alts)


def run(tier, seed):
    binary = langs.drv_binary()
    common.build_oracle()
    n = 1300 if tier == "quick" else 6000
    ds = ad.corpus(seed, n)
    names = [x for x, _ in ds]
    texts = [pdlast.to_pdl(a) for _, a in ds]
    parsed = ad.run_impl(texts, "parse")
    analyzed = ad.run_impl(texts, "analyze")
    keep, sexps = [], []
    for i, (s, p) in enumerate(parsed):
        if s == "ok":
            keep.append(i)
            sexps.append(pdlast.to_sexp(pdlast.strip_loc(p["ast"])))
    model = ad.run_model(sexps)
    known = common.known_findings()
    violations, known_hits = [], collections.OrderedDict()
    counts = collections.Counter()
    samples = []
    for k, i in enumerate(keep):
        st, p = analyzed[i]
        io = ad.impl_outcome(st, p)
        mo = ad.model_outcome(*model[k])
        counts["evaluations"] += 1
        counts["verdict:" + io[0]] += 1
        case = {"name": names[i], "pdl": texts[i]}
        # (1) every definite rule violation is reported with its code
        viol = definite_violations(pdlast.strip_loc(parsed[i][1]["ast"]))
        if viol:
            counts["nontrivial"] += 1
            for rule in sorted(viol):
                counts["rule:" + rule] += 1
                if io[0] == "panic":
                    counts["analyzer-panics"] += 1      # C10's business, listed there
                elif io[0] != "rejected" or not reported(rule, io[1].split(",")):
                    f = next((x for x in known if x["property"] == "C08" and x.get("rule") == rule), None)
                    if f:
                        known_hits.setdefault(f["id"], f["what"])
                    else:
                        violations.append({"kind": "rule-violation-not-reported", "rule": rule, **case, "observed": io[:2]})
        if io[0] == "ok":
            for rule in sorted(accepted_violations(pdlast.strip_loc(parsed[i][1]["ast"]))):
                counts["rule:" + rule] += 1
                violations.append({"kind": "ill-formed-description-accepted", "rule": rule, **case, "observed": io[:1]})
        # (2) diagnostics are renderable and point inside the file
        if st == "err" and isinstance(p, dict) and p.get("stage") == "analyze":
            src_len = p.get("source_len", len(texts[i].encode()))
            if not p.get("emit_ok", False):
                violations.append({"kind": "diagnostics-do-not-render", **case, "observed": {k2: p.get(k2) for k2 in ("emit_ok", "emit_error", "emit_panic")}})
            for dg in p.get("diagnostics", []):
                if dg.get("severity", "error") != "error" or not dg.get("code"):
                    violations.append({"kind": "diagnostic-without-error-code", **case, "observed": dg})
                for lb in dg.get("labels", []):
                    if not (0 <= lb["start"] <= lb["end"] <= src_len):
                        violations.append({"kind": "label-outside-the-source", **case, "observed": lb, "source_len": src_len})
        # (3) the model says the same (verdict, codes in order, analyzed file)
        agree = (io[0] == mo[0]) and (
            (io[0] == "ok" and mo[1] == io[1]) or
            (io[0] == "rejected" and mo[1] == io[1]) or
            (io[0] == "panic") or      # the site's line number moves with every edit above it: not compared
            io[0] not in ("ok", "rejected", "panic"))
        if not agree:
            counts["disagreements"] += 1
            violations.append({"kind": "model-correspondence", **case, "observed": {"impl": io[:2]}, "expected": {"model": mo[:2]},
                               "no_failing_input_found": True})
        if len(samples) < 6 and k % 151 == 0:
            samples.append({"name": names[i], "pdl": texts[i][:400], "verdict": io[:2]})
    cov = {"evaluations": int(counts["evaluations"]), "distinct_nontrivial": int(counts["nontrivial"]),
           "rule": "one-rule-violating edits for every error code E1..E53 (catalogue of the analyzer's own unit tests, varied over packet/child/struct/group context, first/last field, through groups and inheritance, numeric boundaries 2^w-1 / 2^w, range ends, bit offsets 7/8/9), random edits of well-formed files, absurd and chaotic declarations; each through analyze + Diagnostics::emit and through the Coq model; non-trivial = a catalogued violation",
           "samples": samples, "distribution": {k: int(v) for k, v in counts.items()},
           "disagreements_checked": int(counts["disagreements"])}
    return {"coverage": cov, "violations": violations[:40], "known": [f"{a}: {b}" for a, b in known_hits.items()]}


def replay(path):
    print(open(path).read())
    return 0
