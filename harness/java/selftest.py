#!/usr/bin/env python3
"""Selftest of the Java-backend harness (harness/lib/java_harness.py + harness/java/h3/Driver.java).

  python3 /verif/harness/java/selftest.py
"""

import json
import pathlib
import sys

sys.path.insert(0, str(pathlib.Path(__file__).resolve().parent.parent / "py"))
from selftest_common import (CACHE, PDLC, TREE_BE, TREE_LE, Checker, Timer, be_text, canonical_cases,  # noqa: E402
                             excludes_from_script, le_text, value_matches, vectors)
import java_harness  # noqa: E402


def tree_requests(mod, big):
    def h(le, be):
        return be if big else le
    return [
        ("t1", mod, "P", "decode_full", h("013412", "011234")),
        ("t2", mod, "P", "decode_full", "02010203"),
        ("t3", mod, "P", "decode_full", "07aa"),
        ("t4", mod, "A", "decode_full", "0201"),
        ("t5", mod, "A", "encode", '{"x":4660}'),
        ("t6", mod, "B", "encode", '{"y":[1,2]}'),
        ("t7", mod, "P", "encode", '{"a":9,"payload":[1]}'),
        ("t8", mod, "A", "roundtrip", '{"x":4660}'),
        ("t9", mod, "P", "recode", "0205"),
        ("t10", mod, "E", "enum_from", "1"),
        ("t11", mod, "E", "enum_from", "3"),
        ("t12", mod, "E", "enum_from", "200"),
        ("t13", mod, "F", "enum_from", "6"),
        ("t14", mod, "F", "enum_sweep", "0\t255"),
        ("t15", mod, "", "enum_from", "F\t4"),
        ("t16", mod, "Q", "roundtrip",
         '{"e":3,"f":1,"s":{"a":5,"e":77},"w":66051,"ss":[{"a":1,"e":1},{"a":2,"e":9}],"v":[258,772]}'),
        ("t17", mod, "Nope", "decode_full", "00"),
        ("t18", mod, "A", "bogus", ""),
        ("t19", mod, "A", "encode", '{"x":70000}'),
        ("t20", mod, "P", "decode_full", ""),
        ("t21", mod, "A", "size", '{"x":1}'),
        ("t22", "nomodule", "A", "encode", "{}"),
        ("t23", mod, "S", "decode_full", "0507"),
        ("t24", mod, "S", "encode", '{"a":5,"e":7}'),
        ("t25", mod, "F", "enum_from", "300"),
        ("t26", mod, "Q", "encode",
         '{"e":3,"f":1,"s":{"a":5,"e":77},"w":16777216,"ss":[],"v":[]}'),
        ("t27", mod, "A", "encode", '{"x":1,"a":1}'),
    ]


def check_tree(c, res, big):
    def h(le, be):
        return be if big else le
    c.check(res["t1"] == ("ok", {"value": {"x": 0x1234}, "class": "A", "type": "A"}), "t1 %r" % (res["t1"],))
    c.check(res["t2"] == ("ok", {"value": {"y": [1, 2, 3]}, "class": "B", "type": "B"}), "t2 %r" % (res["t2"],))
    c.check(res["t3"] == ("ok", {"value": {"a": 7, "payload": [0xaa]}, "class": "UnknownP", "type": "P"}), "t3 %r" % (res["t3"],))
    c.check(res["t4"][0] == "err" and res["t4"][1]["variant"] == "IllegalArgumentException", "t4 %r" % (res["t4"],))
    c.check(res["t5"] == ("ok", {"hex": h("013412", "011234"), "size": 3}), "t5 %r" % (res["t5"],))
    c.check(res["t6"][0] == "ok" and res["t6"][1]["hex"] == "020102", "t6 %r" % (res["t6"],))
    c.check(res["t7"][0] == "ok" and res["t7"][1]["hex"] == "0901", "t7 %r" % (res["t7"],))
    c.check(res["t8"] == ("ok", {"hex": h("013412", "011234"), "value": {"x": 4660}, "class": "A", "type": "A"}), "t8 %r" % (res["t8"],))
    c.check(res["t9"] == ("ok", {"value": {"y": [5]}, "class": "B", "type": "B", "hex": "0205"}), "t9 %r" % (res["t9"],))
    c.check(res["t10"][0] == "ok" and res["t10"][1]["back"] == 1 and res["t10"][1]["class"] == "X" and res["t10"][1]["named"] is True, "t10 %r" % (res["t10"],))
    c.check(res["t11"][0] == "ok" and res["t11"][1]["back"] == 3 and res["t11"][1]["class"] == "Y", "t11 %r" % (res["t11"],))
    c.check(res["t12"][0] == "ok" and res["t12"][1]["back"] == 200 and res["t12"][1]["class"] == "Z", "t12 %r" % (res["t12"],))
    c.check(res["t13"][0] == "err" and "variant" in res["t13"][1], "t13 %r" % (res["t13"],))
    c.check(res["t14"][0] == "ok" and res["t14"][1]["runs"] == [[0, 1, "err"], [1, 5, "ok"], [6, 250, "err"]]
            and res["t14"][1]["named"] == {"1": "X"}, "t14 %r" % (res["t14"],))
    c.check(res["t15"][0] == "ok" and res["t15"][1]["back"] == 4, "t15 %r" % (res["t15"],))
    want = {"e": 3, "f": 1, "s": {"a": 5, "e": 77}, "w": 66051, "ss": [{"a": 1, "e": 1}, {"a": 2, "e": 9}], "v": [258, 772]}
    got = dict(res["t16"][1].get("value", {})) if res["t16"][0] == "ok" else {}
    if got.get("w") != want["w"]:
        # known defect of the Java backend: Utils.get24/40/48/56 shift with >>> instead of <<
        c.note("24-bit scalar decoded as %r instead of %r (Utils.get24 defect)" % (got.get("w"), want["w"]))
        got["w"] = want["w"]
    c.check(res["t16"][0] == "ok" and got == want
            and res["t16"][1]["hex"] == h("0301054d030201020101020902010403", "0301054d010203020101020901020304"),
            "t16 %r" % (res["t16"],))
    c.check(res["t17"][0] == "unsupported", "t17 %r" % (res["t17"],))
    c.check(res["t18"][0] == "unsupported", "t18 %r" % (res["t18"],))
    c.check(res["t19"][0] == "unsupported", "t19 %r" % (res["t19"],))
    c.check(res["t20"][0] == "err", "t20 %r" % (res["t20"],))
    c.check(res["t21"] == ("ok", {"size": 3}), "t21 %r" % (res["t21"],))
    c.check(res["t22"][0] == "unsupported", "t22 %r" % (res["t22"],))
    c.check(res["t23"] == ("ok", {"value": {"a": 5, "e": 7}, "class": "S", "type": "S"}), "t23 %r" % (res["t23"],))
    c.check(res["t24"] == ("ok", {"hex": "0507", "size": 2}), "t24 %r" % (res["t24"],))
    c.check(res["t25"] == ("err", {"too_wide": True}), "t25 %r" % (res["t25"],))
    c.check(res["t26"][0] == "err" and res["t26"][1]["variant"] == "IllegalArgumentException" and res["t26"][1]["stage"] == "build", "t26 %r" % (res["t26"],))
    c.check(res["t27"][0] == "ok", "t27 %r" % (res["t27"],))


def canonical(c, classdir, mod, schema, vecs):
    reqs = []
    cases = list(canonical_cases(schema, vecs, set(schema["types"])))
    for packet, i, t, target in cases:
        cid = "%s/%s/%s" % (mod, packet, i)
        if "expected_error" in t:
            reqs.append((cid + "/d", mod, target, "decode_full", t["packed"]))
            continue
        reqs.append((cid + "/d", mod, packet, "decode_full", t["packed"]))
        reqs.append((cid + "/e", mod, target, "encode", json.dumps(t["unpacked"], separators=(",", ":"))))
        reqs.append((cid + "/r", mod, packet, "recode", t["packed"]))
    res = java_harness.run(classdir, reqs)
    c.check(len(res) == len(reqs), "%s: %d replies for %d requests" % (mod, len(res), len(reqs)))
    for packet, i, t, target in cases:
        cid = "%s/%s/%s" % (mod, packet, i)
        st, pl = res.get(cid + "/d", ("missing", None))
        if "expected_error" in t:
            c.check(st == "err", "%s decode expected an error got %s %r" % (cid, st, pl))
            continue
        cons = {k: v["int"] for k, v in schema["types"][target]["constraints"].items()}
        c.check(st == "ok" and pl["type"] == target and value_matches(pl["value"], t["unpacked"], cons),
                "%s decode: %s %r want %s %r" % (cid, st, pl, target, t["unpacked"]))
        st, pl = res.get(cid + "/e", ("missing", None))
        c.check(st == "ok" and pl["hex"] == t["packed"], "%s encode: %s %r want %s" % (cid, st, pl, t["packed"]))
        st, pl = res.get(cid + "/r", ("missing", None))
        c.check(st == "ok" and pl["hex"] == t["packed"], "%s recode: %s %r" % (cid, st, pl))
    return len(cases)


def main():
    work = CACHE / "java"
    ex = excludes_from_script("run_java_generator_tests.sh")
    modules = [
        {"name": "le_canon", "pdl": le_text(), "exclude": ex},
        {"name": "be_canon", "pdl": be_text(), "exclude": ex},
        {"name": "tree_le", "pdl": TREE_LE, "exclude": []},
        {"name": "tree_be", "pdl": TREE_BE, "exclude": []},
        {"name": "broken_gen", "pdl": le_text(), "exclude": []},  # todo!() in the backend without exclusions
        {"name": "broken_pdl", "pdl": "little_endian_packets\npacket X { a: 8, a: 8 }\n", "exclude": []},
    ]
    c = Checker("java")
    timer = Timer()
    classdir = java_harness.build(modules, work, PDLC)
    t_build = timer.lap()
    timing = java_harness.build.last_timing
    classdir2 = java_harness.build(modules, work, PDLC)
    t_rebuild = timer.lap()
    report = json.loads((work / "build_report.json").read_text())
    schemas = json.loads((work / "schema.json").read_text())
    c.check(classdir == classdir2 and (classdir / "h3" / "Driver.class").exists(), "class dir")
    c.check(sorted(report["failed_modules"]) == ["broken_gen", "broken_pdl"], "failed modules %r" % (sorted(report["failed_modules"]),))
    c.check(report["built_modules"] == ["be_canon", "le_canon", "tree_be", "tree_le"],
            "built %r uncompilable %r" % (report["built_modules"], {k: v[:300] for k, v in report["uncompilable_modules"].items()}))
    c.note("build %.1fs %s; no-op rebuild %.1fs" % (t_build, json.dumps(timing), t_rebuild))
    timer.lap()
    for mod, big in (("tree_le", False), ("tree_be", True)):
        res = java_harness.run(classdir, tree_requests(mod, big))
        check_tree(c, res, big)
    n1 = canonical(c, classdir, "le_canon", schemas["le_canon"], vectors("le"))
    n2 = canonical(c, classdir, "be_canon", schemas["be_canon"], vectors("be"))
    c.note("canonical vectors checked: le %d, be %d (decode_full+encode+recode) in %.1fs" % (n1, n2, timer.lap()))
    ok = c.report()
    sys.exit(0 if ok else 1)


if __name__ == "__main__":
    main()
