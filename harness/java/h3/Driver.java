// Generic (reflective) line-protocol driver for pdlc's Java backend, PROTOCOL.md section 3.
//
//   java -cp <classdir> h3.Driver <classdir>/h3_schema.json
//
// The schema file is written by harness/lib/java_harness.py (digest of the JSON AST of every
// module plus the Java names derived with heck's case conversion).  Generated classes are only
// touched through their public API: <T>.fromBytes(byte[]), toBytes(), width(), get<Field>(),
// new <T>.Builder().set<Field>(..).build(), <Enum>.from<Byte|Short|Int|Long>(v), to<..>().
package h3;

import java.io.BufferedReader;
import java.io.FileDescriptor;
import java.io.FileOutputStream;
import java.io.InputStreamReader;
import java.io.PrintStream;
import java.lang.reflect.Array;
import java.lang.reflect.Constructor;
import java.lang.reflect.InvocationTargetException;
import java.lang.reflect.Method;
import java.lang.reflect.Modifier;
import java.math.BigInteger;
import java.nio.charset.StandardCharsets;
import java.nio.file.Files;
import java.nio.file.Paths;
import java.util.ArrayList;
import java.util.HashMap;
import java.util.LinkedHashMap;
import java.util.List;
import java.util.Map;

public final class Driver {
    // ------------------------------------------------------------------ errors
    static final class Unsupported extends Exception {
        Unsupported(String why) { super(why); }
    }

    static final class GenError extends Exception {
        final String stage;
        final Throwable error;
        GenError(String stage, Throwable error) { super(stage); this.stage = stage; this.error = error; }
    }

    // ------------------------------------------------------------------ JSON
    static final class Raw {
        final String text;
        Raw(String text) { this.text = text; }
    }

    static final class JsonParser {
        private final String t;
        private int p = 0;
        JsonParser(String t) { this.t = t; }

        static Object parse(String text) throws Unsupported {
            JsonParser jp = new JsonParser(text);
            Object v = jp.value(0);
            jp.ws();
            if (jp.p != text.length()) throw new Unsupported("bad json: trailing characters");
            return v;
        }

        private void ws() { while (p < t.length() && " \t\r\n".indexOf(t.charAt(p)) >= 0) p++; }

        private Unsupported bad() { return new Unsupported("bad json near offset " + p); }

        private boolean lit(String w) { if (t.startsWith(w, p)) { p += w.length(); return true; } return false; }

        private String str() throws Unsupported {
            if (p >= t.length() || t.charAt(p) != '"') throw bad();
            p++;
            StringBuilder sb = new StringBuilder();
            while (p < t.length()) {
                char c = t.charAt(p++);
                if (c == '"') return sb.toString();
                if (c == '\\') {
                    if (p >= t.length()) throw bad();
                    char e = t.charAt(p++);
                    switch (e) {
                        case '"': sb.append('"'); break;
                        case '\\': sb.append('\\'); break;
                        case '/': sb.append('/'); break;
                        case 'b': sb.append('\b'); break;
                        case 'f': sb.append('\f'); break;
                        case 'n': sb.append('\n'); break;
                        case 'r': sb.append('\r'); break;
                        case 't': sb.append('\t'); break;
                        case 'u':
                            if (p + 4 > t.length()) throw bad();
                            try { sb.append((char) Integer.parseInt(t.substring(p, p + 4), 16)); } catch (NumberFormatException x) { throw bad(); }
                            p += 4;
                            break;
                        default: throw bad();
                    }
                } else {
                    sb.append(c);
                }
            }
            throw bad();
        }

        private Object value(int depth) throws Unsupported {
            if (depth > 256) throw new Unsupported("json nesting too deep");
            ws();
            if (p >= t.length()) throw bad();
            char c = t.charAt(p);
            if (c == 'n') { if (lit("null")) return null; throw bad(); }
            if (c == 't') { if (lit("true")) return Boolean.TRUE; throw bad(); }
            if (c == 'f') { if (lit("false")) return Boolean.FALSE; throw bad(); }
            if (c == '"') return str();
            if (c == '[') {
                p++;
                List<Object> a = new ArrayList<>();
                ws();
                if (p < t.length() && t.charAt(p) == ']') { p++; return a; }
                while (true) {
                    a.add(value(depth + 1));
                    ws();
                    if (p < t.length() && t.charAt(p) == ',') { p++; continue; }
                    if (p < t.length() && t.charAt(p) == ']') { p++; return a; }
                    throw bad();
                }
            }
            if (c == '{') {
                p++;
                Map<String, Object> o = new LinkedHashMap<>();
                ws();
                if (p < t.length() && t.charAt(p) == '}') { p++; return o; }
                while (true) {
                    ws();
                    String k = str();
                    ws();
                    if (p >= t.length() || t.charAt(p) != ':') throw bad();
                    p++;
                    o.put(k, value(depth + 1));
                    ws();
                    if (p < t.length() && t.charAt(p) == ',') { p++; continue; }
                    if (p < t.length() && t.charAt(p) == '}') { p++; return o; }
                    throw bad();
                }
            }
            int start = p;
            boolean plain = true;
            if (c == '-') { plain = false; p++; }
            int digits = 0;
            while (p < t.length() && Character.isDigit(t.charAt(p))) { p++; digits++; }
            if (digits == 0) throw bad();
            if (p < t.length() && ".eE".indexOf(t.charAt(p)) >= 0) {
                plain = false;
                while (p < t.length() && ".eE+-0123456789".indexOf(t.charAt(p)) >= 0) p++;
            }
            String text = t.substring(start, p);
            if (plain) return new BigInteger(text);
            return new Raw(text);
        }
    }

    static void dumpString(String s, StringBuilder sb) {
        sb.append('"');
        for (int i = 0; i < s.length(); i++) {
            char c = s.charAt(i);
            switch (c) {
                case '"': sb.append("\\\""); break;
                case '\\': sb.append("\\\\"); break;
                case '\n': sb.append("\\n"); break;
                case '\r': sb.append("\\r"); break;
                case '\t': sb.append("\\t"); break;
                default:
                    if (c < 0x20) sb.append(String.format("\\u%04x", (int) c)); else sb.append(c);
            }
        }
        sb.append('"');
    }

    @SuppressWarnings("unchecked")
    static void dump(Object v, StringBuilder sb) {
        if (v == null) { sb.append("null"); return; }
        if (v instanceof Boolean) { sb.append(((Boolean) v) ? "true" : "false"); return; }
        if (v instanceof BigInteger || v instanceof Integer || v instanceof Long) { sb.append(v.toString()); return; }
        if (v instanceof Raw) { sb.append(((Raw) v).text); return; }
        if (v instanceof String) { dumpString((String) v, sb); return; }
        if (v instanceof List) {
            sb.append('[');
            boolean first = true;
            for (Object e : (List<Object>) v) { if (!first) sb.append(','); first = false; dump(e, sb); }
            sb.append(']');
            return;
        }
        if (v instanceof Map) {
            sb.append('{');
            boolean first = true;
            for (Map.Entry<String, Object> e : ((Map<String, Object>) v).entrySet()) {
                if (!first) sb.append(',');
                first = false;
                dumpString(e.getKey(), sb);
                sb.append(':');
                dump(e.getValue(), sb);
            }
            sb.append('}');
            return;
        }
        dumpString(String.valueOf(v), sb);
    }

    static String dump(Object v) { StringBuilder sb = new StringBuilder(); dump(v, sb); return sb.toString(); }

    static Map<String, Object> obj(Object... kv) {
        Map<String, Object> m = new LinkedHashMap<>();
        for (int i = 0; i + 1 < kv.length; i += 2) m.put((String) kv[i], kv[i + 1]);
        return m;
    }

    static final BigInteger BIG = BigInteger.ONE.shiftLeft(53);

    static Object big(BigInteger v) { return v.abs().compareTo(BIG) > 0 ? (Object) v.toString() : (Object) v; }

    // ------------------------------------------------------------------ module model
    @SuppressWarnings("unchecked")
    static final class Mod {
        final String name;
        final String pkg;
        final Map<String, Object> types;
        final Map<String, Object> enums;
        final Map<String, String> typeByClass = new HashMap<>();   // full java class name -> pdl type id
        final Map<String, String> enumByClass = new HashMap<>();   // full java class name -> pdl enum id
        final Map<String, Method> enumTo = new HashMap<>();
        final Map<String, Method> enumFrom = new HashMap<>();

        Mod(String name, Map<String, Object> schema) {
            this.name = name;
            this.pkg = (String) schema.get("package");
            this.types = (Map<String, Object>) schema.get("types");
            this.enums = (Map<String, Object>) schema.get("enums");
            for (Map.Entry<String, Object> e : types.entrySet()) {
                Map<String, Object> t = (Map<String, Object>) e.getValue();
                String java = (String) t.get("java");
                typeByClass.put(pkg + "." + java, e.getKey());
                if ("payload".equals(t.get("own_payload"))) typeByClass.put(pkg + ".Unknown" + java, e.getKey());
            }
            for (Map.Entry<String, Object> e : enums.entrySet()) {
                Map<String, Object> t = (Map<String, Object>) e.getValue();
                enumByClass.put(pkg + "." + t.get("java"), e.getKey());
            }
        }

        Map<String, Object> type(String id) throws Unsupported {
            Object t = types.get(id);
            if (t == null) throw new Unsupported("unknown type " + id);
            Map<String, Object> tm = (Map<String, Object>) t;
            Object why = tm.get("unsupported");
            if (why != null) throw new Unsupported((String) why);
            return tm;
        }

        Class<?> cls(String simple) throws Unsupported {
            try {
                return Class.forName(pkg + "." + simple);
            } catch (ClassNotFoundException | LinkageError e) {
                throw new Unsupported("class " + pkg + "." + simple + " cannot be loaded: " + e);
            }
        }

        String enumOf(Class<?> c) {
            for (Class<?> k = c; k != null; k = k.getSuperclass()) {
                String id = enumByClass.get(k.getName());
                if (id != null) return id;
            }
            return null;
        }

        Method enumTo(String id) throws Unsupported {
            Method m = enumTo.get(id);
            if (m == null) {
                Class<?> c = cls((String) ((Map<String, Object>) enums.get(id)).get("java"));
                for (Method k : c.getDeclaredMethods()) {
                    if (k.getName().startsWith("to") && !k.getName().equals("toString") && k.getParameterCount() == 0
                            && k.getReturnType().isPrimitive() && Modifier.isPublic(k.getModifiers())) {
                        m = k;
                    }
                }
                if (m == null) throw new Unsupported("enum " + id + " has no to<Integral>() method");
                m.setAccessible(true);
                enumTo.put(id, m);
            }
            return m;
        }

        Method enumFrom(String id) throws Unsupported {
            Method m = enumFrom.get(id);
            if (m == null) {
                Class<?> c = cls((String) ((Map<String, Object>) enums.get(id)).get("java"));
                for (Method k : c.getDeclaredMethods()) {
                    if (k.getName().startsWith("from") && k.getParameterCount() == 1 && k.getParameterTypes()[0].isPrimitive()
                            && Modifier.isStatic(k.getModifiers()) && Modifier.isPublic(k.getModifiers())) {
                        m = k;
                    }
                }
                if (m == null) throw new Unsupported("enum " + id + " has no from<Integral>() method");
                m.setAccessible(true);
                enumFrom.put(id, m);
            }
            return m;
        }
    }

    static Object call(String stage, Method m, Object target, Object... args) throws GenError, Unsupported {
        try {
            m.setAccessible(true);
        } catch (RuntimeException e) {
            // keep going: invoke reports the access problem
        }
        try {
            return m.invoke(target, args);
        } catch (InvocationTargetException e) {
            throw new GenError(stage, e.getCause() != null ? e.getCause() : e);
        } catch (IllegalAccessException | IllegalArgumentException e) {
            throw new Unsupported("cannot call " + m + ": " + e);
        }
    }

    static Method publicMethod(Class<?> c, String name, int nparams) {
        // javac emits bridge methods for public methods inherited from non public classes
        // (e.g. P.UnconstrainedBuilder.setA seen through UnknownP.Builder): accept them, but
        // prefer the real method when both exist.
        Method found = null;
        for (Method m : c.getMethods()) {
            if (m.getName().equals(name) && m.getParameterCount() == nparams) {
                if (found == null || (found.isBridge() && !m.isBridge())) found = m;
            }
        }
        return found;
    }

    // ------------------------------------------------------------------ object -> json
    static BigInteger unsigned(Object boxed) throws Unsupported {
        if (boxed instanceof Boolean) return ((Boolean) boxed) ? BigInteger.ONE : BigInteger.ZERO;
        if (boxed instanceof Byte) return BigInteger.valueOf(((Byte) boxed) & 0xffL);
        if (boxed instanceof Short) return BigInteger.valueOf(((Short) boxed) & 0xffffL);
        if (boxed instanceof Character) return BigInteger.valueOf((Character) boxed);
        if (boxed instanceof Integer) return BigInteger.valueOf(((Integer) boxed) & 0xffffffffL);
        if (boxed instanceof Long) return new BigInteger(Long.toUnsignedString((Long) boxed));
        throw new Unsupported("not an integral value: " + boxed.getClass().getName());
    }

    @SuppressWarnings("unchecked")
    static Object toJson(Mod m, Object v, int depth) throws Unsupported, GenError {
        if (depth > 200) throw new Unsupported("value nesting too deep");
        if (v == null) return null;
        if (v instanceof Boolean || v instanceof Byte || v instanceof Short || v instanceof Integer || v instanceof Long
                || v instanceof Character) {
            return unsigned(v);
        }
        Class<?> c = v.getClass();
        if (c.isArray()) {
            int n = Array.getLength(v);
            List<Object> out = new ArrayList<>(n);
            for (int i = 0; i < n; i++) out.add(toJson(m, Array.get(v, i), depth + 1));
            return out;
        }
        if (v instanceof List) {
            List<Object> out = new ArrayList<>();
            for (Object e : (List<Object>) v) out.add(toJson(m, e, depth + 1));
            return out;
        }
        String en = m.enumOf(c);
        if (en != null) return unsigned(call("convert", m.enumTo(en), v));
        String tid = m.typeByClass.get(c.getName());
        if (tid != null) return objectToJson(m, tid, v, depth);
        throw new Unsupported("cannot convert value of class " + c.getName());
    }

    @SuppressWarnings("unchecked")
    static Object objectToJson(Mod m, String tid, Object v, int depth) throws Unsupported, GenError {
        Map<String, Object> t = m.type(tid);
        Map<String, Object> getters = (Map<String, Object>) t.get("getters");
        Map<String, Object> out = new LinkedHashMap<>();
        for (Object k : (List<Object>) t.get("value_keys")) {
            String key = (String) k;
            String g = (String) getters.get(key);
            Method gm = publicMethod(v.getClass(), g, 0);
            if (gm == null) throw new Unsupported("class " + v.getClass().getSimpleName() + " has no getter " + g + "()");
            out.put(key, toJson(m, call("convert", gm, v), depth + 1));
        }
        return out;
    }

    // ------------------------------------------------------------------ json -> object
    static Object prim(Class<?> target, Object j, String what) throws Unsupported {
        if (!(j instanceof BigInteger)) throw new Unsupported(what + ": expected a non negative integer, got " + dump(j));
        BigInteger b = (BigInteger) j;
        int bits;
        if (target == boolean.class) bits = 1;
        else if (target == byte.class) bits = 8;
        else if (target == short.class) bits = 16;
        else if (target == int.class) bits = 32;
        else if (target == long.class) bits = 64;
        else throw new Unsupported(what + ": unsupported primitive " + target);
        if (b.signum() < 0 || b.bitLength() > bits) {
            throw new Unsupported(what + ": value " + b + " does not fit the " + target + " backing type");
        }
        if (target == boolean.class) return b.signum() != 0;
        if (target == byte.class) return (byte) b.intValue();
        if (target == short.class) return (short) b.intValue();
        if (target == int.class) return b.intValue();
        return b.longValue();
    }

    @SuppressWarnings("unchecked")
    static Object fromJson(Mod m, Class<?> target, Object j, String what) throws Unsupported, GenError {
        if (target.isPrimitive()) return prim(target, j, what);
        if (target.isArray()) {
            if (!(j instanceof List)) throw new Unsupported(what + ": expected a list");
            List<Object> l = (List<Object>) j;
            Class<?> comp = target.getComponentType();
            Object arr = Array.newInstance(comp, l.size());
            for (int i = 0; i < l.size(); i++) Array.set(arr, i, fromJson(m, comp, l.get(i), what));
            return arr;
        }
        if (j == null) return null;  // optional (not generated by the backend today)
        String en = m.enumByClass.get(target.getName());
        if (en != null) {
            Method from = m.enumFrom(en);
            return call("build", from, null, prim(from.getParameterTypes()[0], j, what));
        }
        String tid = m.typeByClass.get(target.getName());
        if (tid != null) return build(m, tid, j);
        throw new Unsupported(what + ": unsupported parameter type " + target.getName());
    }

    @SuppressWarnings("unchecked")
    static Object build(Mod m, String tid, Object j) throws Unsupported, GenError {
        Map<String, Object> t = m.type(tid);
        if (!(j instanceof Map)) throw new Unsupported(tid + ": expected an object");
        String java = (String) t.get("java");
        Object op = t.get("own_payload");
        String holder;
        if ("payload".equals(op)) holder = "Unknown" + java;
        else if ("body".equals(op)) throw new Unsupported(tid + " has a _body_: abstract class without fallback child, cannot be built");
        else holder = java;
        Class<?> bc = m.cls(holder + "$Builder");
        Object builder;
        try {
            Constructor<?> k = bc.getConstructor();
            k.setAccessible(true);
            builder = k.newInstance();
        } catch (InvocationTargetException e) {
            throw new GenError("build", e.getCause());
        } catch (ReflectiveOperationException | RuntimeException e) {
            throw new Unsupported("cannot instantiate " + bc.getName() + ": " + e);
        }
        Map<String, Object> setters = (Map<String, Object>) t.get("setters");
        List<Object> constrained = (List<Object>) t.get("constrained");
        for (Map.Entry<String, Object> e : ((Map<String, Object>) j).entrySet()) {
            String key = e.getKey();
            String s = (String) setters.get(key);
            if (s == null) {
                if (constrained.contains(key)) continue;
                throw new Unsupported(tid + ": unknown key " + key);
            }
            Method sm = publicMethod(bc, s, 1);
            if (sm == null) {
                if (constrained.contains(key)) continue;
                throw new Unsupported(tid + ": builder has no setter " + s);
            }
            Object arg = fromJson(m, sm.getParameterTypes()[0], e.getValue(), key);
            call("build", sm, builder, arg);
        }
        Method bm = publicMethod(bc, "build", 0);
        if (bm == null) throw new Unsupported(tid + ": builder has no build()");
        return call("build", bm, builder);
    }

    // ------------------------------------------------------------------ ops
    static byte[] hex(String s) throws Unsupported {
        s = s.trim();
        if (s.length() % 2 != 0) throw new Unsupported("bad hex argument");
        byte[] out = new byte[s.length() / 2];
        for (int i = 0; i < out.length; i++) {
            int h = Character.digit(s.charAt(2 * i), 16), l = Character.digit(s.charAt(2 * i + 1), 16);
            if (h < 0 || l < 0) throw new Unsupported("bad hex argument");
            out[i] = (byte) (h << 4 | l);
        }
        return out;
    }

    static String hex(byte[] b) {
        StringBuilder sb = new StringBuilder(b.length * 2);
        for (byte x : b) { sb.append(Character.forDigit((x >> 4) & 15, 16)); sb.append(Character.forDigit(x & 15, 16)); }
        return sb.toString();
    }

    static Object parse(Mod m, String tid, byte[] data) throws Unsupported, GenError {
        Map<String, Object> t = m.type(tid);
        Class<?> c = m.cls((String) t.get("java"));
        Method fb;
        try {
            fb = c.getMethod("fromBytes", byte[].class);
        } catch (NoSuchMethodException e) {
            throw new Unsupported("class " + c.getName() + " has no public fromBytes(byte[])");
        }
        return call("decode", fb, null, (Object) data);
    }

    static byte[] serialize(Object o) throws Unsupported, GenError {
        Method tb = publicMethod(o.getClass(), "toBytes", 0);
        if (tb == null) throw new Unsupported("class " + o.getClass().getName() + " has no toBytes()");
        Object r = call("encode", tb, o);
        if (!(r instanceof byte[])) throw new Unsupported("toBytes() did not return byte[]");
        return (byte[]) r;
    }

    static Object sizeOf(Object o) {
        try {
            Method w = publicMethod(o.getClass(), "width", 0);
            if (w == null) return null;
            Object r = call("size", w, o);
            return r instanceof Integer ? (Object) BigInteger.valueOf((Integer) r) : null;
        } catch (Unsupported | GenError e) {
            return null;
        }
    }

    static Map<String, Object> described(Mod m, Object o, Map<String, Object> out) throws Unsupported, GenError {
        String tid = m.typeByClass.get(o.getClass().getName());
        if (tid == null) throw new Unsupported("decoded object has unexpected class " + o.getClass().getName());
        out.put("value", objectToJson(m, tid, o, 0));
        out.put("class", o.getClass().getSimpleName());
        out.put("type", tid);
        return out;
    }

    @SuppressWarnings("unchecked")
    static Object[] codecOp(Mod m, String tid, String op, String arg) throws Unsupported, GenError {
        switch (op) {
            case "decode_full": {
                Object o = parse(m, tid, hex(arg));
                return new Object[] {"ok", described(m, o, new LinkedHashMap<>())};
            }
            case "recode": {
                Object o = parse(m, tid, hex(arg));
                Map<String, Object> out = described(m, o, new LinkedHashMap<>());
                out.put("hex", hex(serialize(o)));
                return new Object[] {"ok", out};
            }
            case "encode": {
                Object o = build(m, tid, JsonParser.parse(arg));
                byte[] b = serialize(o);
                return new Object[] {"ok", obj("hex", hex(b), "size", sizeOf(o))};
            }
            case "size": {
                Object o = build(m, tid, JsonParser.parse(arg));
                return new Object[] {"ok", obj("size", sizeOf(o))};
            }
            case "roundtrip": {
                Object o = build(m, tid, JsonParser.parse(arg));
                byte[] b = serialize(o);
                Map<String, Object> out = new LinkedHashMap<>();
                out.put("hex", hex(b));
                Object back = parse(m, tid, b);
                return new Object[] {"ok", described(m, back, out)};
            }
            default:
                throw new Unsupported("unknown op " + op);
        }
    }

    static int primBits(Class<?> c) {
        if (c == boolean.class) return 1;
        if (c == byte.class) return 8;
        if (c == short.class) return 16;
        if (c == int.class) return 32;
        return 64;
    }

    static boolean isSingletonTag(Object r) {
        for (java.lang.reflect.Field f : r.getClass().getDeclaredFields()) {
            if (!Modifier.isStatic(f.getModifiers())) return false;
        }
        return true;
    }

    static Object[] enumOp(Mod m, String type, String op, String arg) throws Unsupported, GenError {
        if (op.equals("enum_from")) {
            int tab = arg.indexOf('\t');
            if (tab >= 0) { type = arg.substring(0, tab); arg = arg.substring(tab + 1); }
        }
        if (!m.enums.containsKey(type)) throw new Unsupported("unknown enum " + type);
        Method from = m.enumFrom(type);
        Method to = m.enumTo(type);
        Class<?> pt = from.getParameterTypes()[0];
        int bits = primBits(pt);
        if (op.equals("enum_from")) {
            BigInteger x;
            try { x = new BigInteger(arg.trim()); } catch (NumberFormatException e) { throw new Unsupported("enum_from: bad integer"); }
            if (x.signum() < 0 || x.bitLength() > bits) return new Object[] {"err", obj("too_wide", Boolean.TRUE)};
            Object r = call("convert", from, null, prim(pt, x, "enum_from"));
            BigInteger back = unsigned(call("convert", to, r));
            return new Object[] {"ok", obj("back", big(back), "class", r.getClass().getSimpleName(),
                    "string", String.valueOf(r), "named", isSingletonTag(r))};
        }
        String[] parts = arg.split("\t");
        BigInteger lo, hi;
        try { lo = new BigInteger(parts[0].trim()); hi = new BigInteger(parts[1].trim()); } catch (RuntimeException e) { throw new Unsupported("enum_sweep: expected <lo>\\t<hi>"); }
        if (lo.signum() < 0 || hi.compareTo(lo) < 0 || hi.subtract(lo).compareTo(BigInteger.valueOf(1 << 20)) >= 0) throw new Unsupported("enum_sweep: bad range");
        List<Object> runs = new ArrayList<>();
        Map<String, Object> named = new LinkedHashMap<>();
        Map<String, Object> errors = new LinkedHashMap<>();
        BigInteger first = null;
        long count = 0;
        String cls = null;
        for (BigInteger x = lo; x.compareTo(hi) <= 0; x = x.add(BigInteger.ONE)) {
            String k;
            if (x.bitLength() > bits) {
                k = "too_wide";
            } else {
                try {
                    Object r = call("convert", from, null, prim(pt, x, "enum_sweep"));
                    BigInteger back = unsigned(call("convert", to, r));
                    k = back.equals(x) ? "ok" : "bad";
                    if (isSingletonTag(r)) named.put(x.toString(), r.getClass().getSimpleName());
                } catch (GenError e) {
                    k = "err";
                    String v = e.error.getClass().getSimpleName();
                    errors.put(v, BigInteger.ONE.add(errors.containsKey(v) ? (BigInteger) errors.get(v) : BigInteger.ZERO));
                }
            }
            if (cls != null && cls.equals(k)) {
                count++;
            } else {
                if (cls != null) { List<Object> r = new ArrayList<>(); r.add(big(first)); r.add(BigInteger.valueOf(count)); r.add(cls); runs.add(r); }
                first = x; count = 1; cls = k;
            }
        }
        if (cls != null) { List<Object> r = new ArrayList<>(); r.add(big(first)); r.add(BigInteger.valueOf(count)); r.add(cls); runs.add(r); }
        return new Object[] {"ok", obj("runs", runs, "named", named, "errors", errors)};
    }

    // ------------------------------------------------------------------ main loop
    @SuppressWarnings("unchecked")
    public static void main(String[] args) throws Exception {
        PrintStream out = new PrintStream(new FileOutputStream(FileDescriptor.out), false, "UTF-8");
        System.setOut(System.err);
        String schemaText = new String(Files.readAllBytes(Paths.get(args[0])), StandardCharsets.UTF_8);
        Map<String, Object> schemas = (Map<String, Object>) JsonParser.parse(schemaText);
        Map<String, Mod> mods = new HashMap<>();
        BufferedReader in = new BufferedReader(new InputStreamReader(System.in, StandardCharsets.UTF_8));
        String line;
        while ((line = in.readLine()) != null) {
            if (line.isEmpty()) continue;
            String[] p = line.split("\t", 5);
            String cid = p[0];
            String module = p.length > 1 ? p[1] : "";
            String type = p.length > 2 ? p[2] : "";
            String op = p.length > 3 ? p[3] : "";
            String arg = p.length > 4 ? p[4] : "";
            String status;
            Object payload;
            try {
                if (!schemas.containsKey(module)) throw new Unsupported("unknown module " + module);
                Mod m = mods.get(module);
                if (m == null) { m = new Mod(module, (Map<String, Object>) schemas.get(module)); mods.put(module, m); }
                Object[] r;
                if (op.equals("enum_from") || op.equals("enum_sweep")) {
                    r = enumOp(m, type, op, arg);
                } else {
                    if (!m.types.containsKey(type)) {
                        throw new Unsupported(m.enums.containsKey(type) ? type + " is an enum" : "unknown type " + type);
                    }
                    r = codecOp(m, type, op, arg);
                }
                status = (String) r[0];
                payload = r[1];
            } catch (Unsupported e) {
                status = "unsupported";
                payload = e.getMessage();
            } catch (GenError e) {
                status = "err";
                String msg = String.valueOf(e.error.getMessage());
                payload = obj("variant", e.error.getClass().getSimpleName(), "stage", e.stage,
                        "message", msg.length() > 200 ? msg.substring(0, 200) : msg);
            } catch (VirtualMachineError e) {
                status = "err";
                payload = obj("variant", e.getClass().getSimpleName(), "stage", "driver");
            } catch (Throwable e) {
                status = "unsupported";
                payload = "driver error: " + e;
            }
            String text;
            try {
                text = dump(payload);
            } catch (Throwable e) {
                status = "unsupported";
                text = "\"unserialisable payload\"";
            }
            out.print(cid + "\t" + status + "\t" + text + "\n");
            out.flush();
        }
    }
}
