//! pdl-drv: in-process driver for the pdl compiler library (PROTOCOL.md section 2).
//!
//! Request  (stdin, one per line):  <case_id> TAB <op> TAB <arg> [TAB <option>]...
//!   <arg> is the PDL source text as a JSON string literal.
//! Reply    (stdout, one per line, flushed): <case_id> TAB <status> TAB <compact json>
//!   <status> is one of ok, err, panic, unsupported.
//!
//! Ops: parse, analyze, schema, generate, generate2.
//! Every stage (parse, analyze, schema, generate, serialize) runs under
//! catch_unwind with a silent panic hook which records message and location.

use std::cell::RefCell;
use std::io::{BufRead, Write};
use std::panic::{catch_unwind, AssertUnwindSafe};
use std::path::{Path, PathBuf};
use std::sync::atomic::{AtomicUsize, Ordering};

use codespan_reporting::diagnostic::{Diagnostic, LabelStyle, Severity};
use codespan_reporting::term::termcolor::NoColor;
use pdl_compiler::{analyzer, ast, backends, parser};
use serde_json::{json, Map, Value};

// ---------------------------------------------------------------------------
// Panic capture
// ---------------------------------------------------------------------------

thread_local! {
    /// (message, "file:line") of the last panic seen by the hook on this thread.
    static LAST_PANIC: RefCell<Option<(String, Option<String>)>> = const { RefCell::new(None) };
}

fn payload_message(payload: &(dyn std::any::Any + Send)) -> String {
    if let Some(s) = payload.downcast_ref::<&'static str>() {
        (*s).to_owned()
    } else if let Some(s) = payload.downcast_ref::<String>() {
        s.clone()
    } else {
        "<non-string panic payload>".to_owned()
    }
}

fn install_hook() {
    std::panic::set_hook(Box::new(|info| {
        let message = payload_message(info.payload());
        let location = info.location().map(|l| format!("{}:{}", l.file(), l.line()));
        // try_with/try_borrow_mut: the hook must never panic itself.
        let _ = LAST_PANIC.try_with(|cell| {
            if let Ok(mut slot) = cell.try_borrow_mut() {
                *slot = Some((message, location));
            }
        });
    }));
}

struct Caught {
    message: String,
    location: Option<String>,
}

impl Caught {
    fn to_json(&self, stage: &str) -> Value {
        json!({"stage": stage, "message": self.message, "location": self.location})
    }
}

/// Run `f` under catch_unwind; on panic return message + location.
fn guard<T>(f: impl FnOnce() -> T) -> Result<T, Caught> {
    let _ = LAST_PANIC.try_with(|cell| cell.borrow_mut().take());
    match catch_unwind(AssertUnwindSafe(f)) {
        Ok(value) => Ok(value),
        Err(payload) => {
            let stored = LAST_PANIC.try_with(|cell| cell.borrow_mut().take()).ok().flatten();
            let message = payload_message(&*payload);
            // Dropping a payload could in theory panic; keep it contained.
            let _ = catch_unwind(AssertUnwindSafe(move || drop(payload)));
            let location = stored.and_then(|(_, location)| location);
            Err(Caught { message, location })
        }
    }
}

// ---------------------------------------------------------------------------
// Replies
// ---------------------------------------------------------------------------

struct Reply {
    status: &'static str,
    payload: Value,
}

impl Reply {
    fn ok(payload: Value) -> Reply {
        Reply { status: "ok", payload }
    }
    fn err(payload: Value) -> Reply {
        Reply { status: "err", payload }
    }
    fn panic(stage: &str, caught: &Caught) -> Reply {
        Reply { status: "panic", payload: caught.to_json(stage) }
    }
    fn unsupported(why: impl Into<String>) -> Reply {
        Reply { status: "unsupported", payload: Value::String(why.into()) }
    }
}

// ---------------------------------------------------------------------------
// JSON helpers
// ---------------------------------------------------------------------------

fn severity_str(severity: Severity) -> &'static str {
    match severity {
        Severity::Bug => "bug",
        Severity::Error => "error",
        Severity::Warning => "warning",
        Severity::Note => "note",
        Severity::Help => "help",
    }
}

fn diagnostic_json(diagnostic: &Diagnostic<ast::FileId>) -> Value {
    let labels: Vec<Value> = diagnostic
        .labels
        .iter()
        .map(|label| {
            json!({
                "start": label.range.start,
                "end": label.range.end,
                "primary": label.style == LabelStyle::Primary,
                "message": label.message,
                "file": label.file_id,
            })
        })
        .collect();
    json!({
        "code": diagnostic.code,
        "severity": severity_str(diagnostic.severity),
        "message": diagnostic.message,
        "labels": labels,
        "notes": diagnostic.notes,
    })
}

fn size_json(size: analyzer::Size) -> Value {
    Value::String(match size {
        analyzer::Size::Static(bits) => format!("static:{bits}"),
        analyzer::Size::Dynamic => "dynamic".to_owned(),
        analyzer::Size::Unknown => "unknown".to_owned(),
    })
}

/// Run one Schema query; a panic (e.g. HashMap index on a missing key) is
/// reported in place of the value as {"panic": "<message>", "location": ..}.
fn query(f: impl FnOnce() -> Value) -> Value {
    match guard(f) {
        Ok(value) => value,
        Err(caught) => json!({"panic": caught.message, "location": caught.location}),
    }
}

/// Serialize a file exactly as backends::json::generate does and parse the
/// text back into a JSON value.
fn file_json(file: &ast::File) -> Result<Value, Reply> {
    match guard(|| backends::json::generate(file)) {
        Err(caught) => Err(Reply::panic("serialize", &caught)),
        Ok(Err(message)) => Err(Reply::err(json!({"stage": "serialize", "message": message}))),
        Ok(Ok(text)) => serde_json::from_str::<Value>(&text).map_err(|e| {
            Reply::err(json!({
                "stage": "serialize",
                "message": format!("backends::json::generate output is not valid JSON: {e}"),
            }))
        }),
    }
}

// ---------------------------------------------------------------------------
// Stages
// ---------------------------------------------------------------------------

const DEFAULT_SOURCE_NAME: &str = "input.pdl";

fn stage_parse(
    sources: &mut ast::SourceDatabase,
    name: &str,
    text: &str,
) -> Result<ast::File, Reply> {
    match guard(|| parser::parse_inline(sources, name, text.to_owned())) {
        Err(caught) => Err(Reply::panic("parse", &caught)),
        Ok(Ok(file)) => Ok(file),
        Ok(Err(diagnostic)) => {
            let labels: Vec<Value> = diagnostic
                .labels
                .iter()
                .map(|label| json!([label.range.start, label.range.end]))
                .collect();
            Err(Reply::err(json!({
                "stage": "parse",
                "code": diagnostic.code,
                "message": diagnostic.message,
                "labels": labels,
                "severity": severity_str(diagnostic.severity),
                "notes": diagnostic.notes,
            })))
        }
    }
}

fn stage_analyze(
    sources: &ast::SourceDatabase,
    file: &ast::File,
    source_len: usize,
) -> Result<ast::File, Reply> {
    match guard(|| analyzer::analyze(file)) {
        Err(caught) => Err(Reply::panic("analyze", &caught)),
        Ok(Ok(analyzed)) => Ok(analyzed),
        Ok(Err(diagnostics)) => {
            let list: Vec<Value> = diagnostics.diagnostics.iter().map(diagnostic_json).collect();
            let mut writer = NoColor::new(Vec::<u8>::new());
            let emitted = guard(|| diagnostics.emit(sources, &mut writer));
            let buffer = writer.into_inner();
            let mut payload = Map::new();
            payload.insert("stage".into(), json!("analyze"));
            payload.insert("diagnostics".into(), Value::Array(list));
            payload.insert("emit_ok".into(), json!(matches!(emitted, Ok(Ok(())))));
            payload.insert("emit_len".into(), json!(buffer.len()));
            payload.insert("source_len".into(), json!(source_len));
            payload.insert("emit_text".into(), json!(String::from_utf8_lossy(&buffer)));
            match emitted {
                Ok(Ok(())) => {}
                Ok(Err(error)) => {
                    payload.insert("emit_error".into(), json!(error.to_string()));
                }
                Err(caught) => {
                    payload.insert(
                        "emit_panic".into(),
                        json!({"message": caught.message, "location": caught.location}),
                    );
                }
            }
            Err(Reply::err(Value::Object(payload)))
        }
    }
}

fn stage_schema(analyzed: &ast::File) -> Result<Value, Reply> {
    let schema = match guard(|| analyzer::Schema::new(analyzed)) {
        Ok(schema) => schema,
        Err(caught) => return Err(Reply::panic("schema", &caught)),
    };
    let scope = match guard(|| analyzer::Scope::new(analyzed)) {
        Ok(Ok(scope)) => scope,
        Ok(Err(diagnostics)) => {
            let list: Vec<Value> = diagnostics.diagnostics.iter().map(diagnostic_json).collect();
            return Err(Reply::err(json!({"stage": "schema", "diagnostics": list})));
        }
        Err(caught) => return Err(Reply::panic("schema", &caught)),
    };

    let mut decls = Map::new();
    // `order` keeps the declaration order (serde_json objects are sorted).
    let mut order: Vec<Value> = Vec::new();
    for decl in &analyzed.declarations {
        let Some(decl_id) = decl.id() else { continue };
        let mut fields: Vec<Value> = Vec::new();
        for (index, field) in decl.fields().enumerate() {
            let kind = query(|| {
                serde_json::to_value(field)
                    .ok()
                    .and_then(|value| value.get("kind").cloned())
                    .unwrap_or(Value::Null)
            });
            let is_array = matches!(field.desc, ast::FieldDesc::Array { .. });
            let element_size = if is_array {
                query(|| {
                    Value::String(match analyzer::element_size(&scope, &schema, decl, field) {
                        analyzer::ElementSize::Static(octets) => format!("static:{octets}"),
                        analyzer::ElementSize::Dynamic => "dynamic".to_owned(),
                        analyzer::ElementSize::Unknown => "unknown".to_owned(),
                    })
                })
            } else {
                Value::Null
            };
            let array_size = if is_array {
                query(|| {
                    Value::String(match analyzer::array_size(decl, field) {
                        analyzer::ArraySize::StaticCount(count) => format!("static:{count}"),
                        analyzer::ArraySize::DynamicCount => "count".to_owned(),
                        analyzer::ArraySize::DynamicSize => "size".to_owned(),
                        analyzer::ArraySize::Unknown => "unknown".to_owned(),
                    })
                })
            } else {
                Value::Null
            };
            fields.push(json!({
                "index": index,
                "kind": kind,
                "id": field.id(),
                "field_size": query(|| size_json(schema.field_size(field.key))),
                "padded_size": query(|| json!(schema.padded_size(field.key))),
                "element_size": element_size,
                "array_size": array_size,
            }));
        }
        let entry = json!({
            "decl_size": query(|| size_json(schema.decl_size(decl.key))),
            "parent_size": query(|| size_json(schema.parent_size(decl.key))),
            "payload_size": query(|| size_json(schema.payload_size(decl.key))),
            "total_size": query(|| size_json(schema.total_size(decl.key))),
            "fields": fields,
        });
        order.push(json!(decl_id));
        decls.insert(decl_id.to_owned(), entry);
    }
    Ok(json!({"decls": decls, "order": order}))
}

// ---------------------------------------------------------------------------
// generate
// ---------------------------------------------------------------------------

/// Remove declarations listed in the input filter.
/// Verbatim copy of pdl-compiler/src/main.rs::filter_declarations.
fn filter_declarations(
    file: ast::File,
    exclude_declarations: &[String],
    include_declarations: &[String],
) -> ast::File {
    ast::File {
        declarations: file
            .declarations
            .into_iter()
            .filter(|decl| {
                decl.id()
                    .map(|id| {
                        if include_declarations.is_empty() {
                            !exclude_declarations.contains(&id.to_owned())
                        } else {
                            include_declarations.contains(&id.to_owned())
                        }
                    })
                    .unwrap_or(true)
            })
            .collect(),
        ..file
    }
}

struct GenOptions {
    backend: String,
    exclude: Vec<String>,
    include: Vec<String>,
    custom_fields: Vec<String>,
    namespace: Option<String>,
    include_headers: Vec<String>,
    using_namespaces: Vec<String>,
    package: String,
    name: String,
}

fn split_list(value: &str) -> Vec<String> {
    value.split(',').filter(|item| !item.is_empty()).map(str::to_owned).collect()
}

fn parse_gen_options(options: &[&str]) -> Result<GenOptions, String> {
    let Some(backend) = options.first() else {
        return Err("generate: missing <backend> option".to_owned());
    };
    if !matches!(*backend, "rust" | "python" | "cxx" | "java" | "json") {
        return Err(format!("generate: unknown backend {backend:?}"));
    }
    let mut opts = GenOptions {
        backend: (*backend).to_owned(),
        exclude: vec![],
        include: vec![],
        custom_fields: vec![],
        namespace: None,
        include_headers: vec![],
        using_namespaces: vec![],
        package: "drvpkg".to_owned(),
        name: DEFAULT_SOURCE_NAME.to_owned(),
    };
    for option in &options[1..] {
        if option.is_empty() {
            continue;
        }
        let Some((key, value)) = option.split_once('=') else {
            return Err(format!("generate: malformed option {option:?}"));
        };
        match key {
            "exclude" => opts.exclude = split_list(value),
            "include" => opts.include = split_list(value),
            "custom_field" => opts.custom_fields = split_list(value),
            "namespace" => opts.namespace = Some(value.to_owned()),
            "include_header" => opts.include_headers = split_list(value),
            "using_namespace" => opts.using_namespaces = split_list(value),
            "package" => opts.package = value.to_owned(),
            "name" => opts.name = value.to_owned(),
            _ => return Err(format!("generate: unknown option {key:?}")),
        }
    }
    Ok(opts)
}

static TMP_COUNTER: AtomicUsize = AtomicUsize::new(0);

fn read_tree(root: &Path, dir: &Path, out: &mut Map<String, Value>) -> Result<(), String> {
    let mut entries: Vec<PathBuf> = std::fs::read_dir(dir)
        .map_err(|e| format!("read_dir {}: {e}", dir.display()))?
        .filter_map(|entry| entry.ok().map(|entry| entry.path()))
        .collect();
    entries.sort();
    for path in entries {
        if path.is_dir() {
            read_tree(root, &path, out)?;
        } else {
            let bytes = std::fs::read(&path).map_err(|e| format!("read {}: {e}", path.display()))?;
            let relative = path.strip_prefix(root).unwrap_or(&path);
            out.insert(
                relative.to_string_lossy().into_owned(),
                Value::String(String::from_utf8_lossy(&bytes).into_owned()),
            );
        }
    }
    Ok(())
}

/// Outcome of one generator call: Ok(object with "text" or "files").
fn run_generator(
    sources: &ast::SourceDatabase,
    file: &ast::File,
    analyzed: &ast::File,
    opts: &GenOptions,
) -> Result<Map<String, Value>, Reply> {
    let mut out = Map::new();
    match opts.backend.as_str() {
        "json" => match guard(|| backends::json::generate(file)) {
            Err(caught) => return Err(Reply::panic("generate", &caught)),
            Ok(Err(message)) => {
                return Err(Reply::err(json!({"stage": "generate", "message": message})))
            }
            Ok(Ok(text)) => {
                out.insert("text".into(), Value::String(text));
            }
        },
        "rust" => match guard(|| backends::rust::generate(sources, analyzed, &opts.custom_fields)) {
            Err(caught) => return Err(Reply::panic("generate", &caught)),
            Ok(text) => {
                out.insert("text".into(), Value::String(text));
            }
        },
        "python" => match guard(|| {
            backends::python::generate(
                sources,
                analyzed,
                opts.custom_fields.first().map(String::as_str),
                &opts.exclude,
            )
        }) {
            Err(caught) => return Err(Reply::panic("generate", &caught)),
            Ok(text) => {
                out.insert("text".into(), Value::String(text));
            }
        },
        "cxx" => match guard(|| {
            backends::cxx::generate(
                sources,
                analyzed,
                opts.namespace.as_deref(),
                &opts.include_headers,
                &opts.using_namespaces,
                &opts.exclude,
            )
        }) {
            Err(caught) => return Err(Reply::panic("generate", &caught)),
            Ok(text) => {
                out.insert("text".into(), Value::String(text));
            }
        },
        "java" => {
            let Some(tmp_root) = std::env::var_os("PDL_DRV_TMP") else {
                return Err(Reply::unsupported("java backend needs env PDL_DRV_TMP"));
            };
            let dir = PathBuf::from(tmp_root).join(format!(
                "java-{}-{}",
                std::process::id(),
                TMP_COUNTER.fetch_add(1, Ordering::Relaxed)
            ));
            let _ = std::fs::remove_dir_all(&dir);
            if let Err(e) = std::fs::create_dir_all(&dir) {
                return Err(Reply::unsupported(format!("cannot create {}: {e}", dir.display())));
            }
            let result = guard(|| {
                backends::java::generate(
                    sources,
                    analyzed,
                    &opts.custom_fields,
                    &dir,
                    &opts.package,
                )
            });
            let mut files = Map::new();
            let read_back = read_tree(&dir, &dir, &mut files);
            let _ = std::fs::remove_dir_all(&dir);
            match result {
                Err(caught) => return Err(Reply::panic("generate", &caught)),
                Ok(Err(message)) => {
                    return Err(Reply::err(json!({"stage": "generate", "message": message})))
                }
                Ok(Ok(())) => {}
            }
            if let Err(message) = read_back {
                return Err(Reply::err(json!({"stage": "generate", "message": message})));
            }
            out.insert("files".into(), Value::Object(files));
        }
        other => return Err(Reply::unsupported(format!("unknown backend {other:?}"))),
    }
    Ok(out)
}

fn op_generate(text: &str, options: &[&str], twice: bool) -> Reply {
    let opts = match parse_gen_options(options) {
        Ok(opts) => opts,
        Err(why) => return Reply::unsupported(why),
    };
    let mut sources = ast::SourceDatabase::new();
    let file = match stage_parse(&mut sources, &opts.name, text) {
        Ok(file) => file,
        Err(reply) => return reply,
    };
    let file = match guard(|| filter_declarations(file, &opts.exclude, &opts.include)) {
        Ok(file) => file,
        Err(caught) => return Reply::panic("filter", &caught),
    };
    let analyzed = match stage_analyze(&sources, &file, text.len()) {
        Ok(analyzed) => analyzed,
        Err(reply) => return reply,
    };
    let first = match run_generator(&sources, &file, &analyzed, &opts) {
        Ok(first) => first,
        Err(reply) => return reply,
    };
    if !twice {
        return Reply::ok(Value::Object(first));
    }
    let second = match run_generator(&sources, &file, &analyzed, &opts) {
        Ok(second) => second,
        Err(mut reply) => {
            // The first call succeeded and the second one did not.
            if let Value::Object(map) = &mut reply.payload {
                map.insert("call".into(), json!(2));
            }
            return reply;
        }
    };
    let equal = first == second;
    let mut payload = first;
    if !equal {
        for (key, value) in second {
            payload.insert(format!("{key}2"), value);
        }
    }
    payload.insert("equal".into(), json!(equal));
    Reply::ok(Value::Object(payload))
}

// ---------------------------------------------------------------------------
// parse / analyze / schema
// ---------------------------------------------------------------------------

fn op_parse(text: &str) -> Reply {
    let mut sources = ast::SourceDatabase::new();
    let file = match stage_parse(&mut sources, DEFAULT_SOURCE_NAME, text) {
        Ok(file) => file,
        Err(reply) => return reply,
    };
    match file_json(&file) {
        Ok(ast) => Reply::ok(json!({"ast": ast})),
        Err(reply) => reply,
    }
}

fn op_analyze(text: &str) -> Reply {
    let mut sources = ast::SourceDatabase::new();
    let file = match stage_parse(&mut sources, DEFAULT_SOURCE_NAME, text) {
        Ok(file) => file,
        Err(reply) => return reply,
    };
    let analyzed = match stage_analyze(&sources, &file, text.len()) {
        Ok(analyzed) => analyzed,
        Err(reply) => return reply,
    };
    let ast = match file_json(&analyzed) {
        Ok(ast) => ast,
        Err(reply) => return reply,
    };
    let schema = match stage_schema(&analyzed) {
        Ok(schema) => schema,
        Err(reply) => return reply,
    };
    Reply::ok(json!({"ast": ast, "schema": schema}))
}

// ---------------------------------------------------------------------------
// Main loop
// ---------------------------------------------------------------------------

fn handle(op: &str, rest: &[&str]) -> Reply {
    if !matches!(op, "parse" | "analyze" | "schema" | "generate" | "generate2") {
        return Reply::unsupported(format!("unknown op {op:?}"));
    }
    let Some(arg) = rest.first() else {
        return Reply::unsupported("missing <arg>");
    };
    let text: String = match serde_json::from_str(arg) {
        Ok(text) => text,
        Err(e) => return Reply::unsupported(format!("<arg> is not a JSON string literal: {e}")),
    };
    let options = &rest[1..];
    match op {
        "parse" | "analyze" | "schema" => {
            if options.iter().any(|option| !option.is_empty()) {
                return Reply::unsupported(format!("op {op:?} takes no options"));
            }
            if op == "parse" { op_parse(&text) } else { op_analyze(&text) }
        }
        "generate" => op_generate(&text, options, false),
        "generate2" => op_generate(&text, options, true),
        _ => unreachable!(),
    }
}

fn main() {
    install_hook();
    let stdin = std::io::stdin();
    let mut input = stdin.lock();
    let stdout = std::io::stdout();
    let mut buffer: Vec<u8> = Vec::new();
    loop {
        buffer.clear();
        match input.read_until(b'\n', &mut buffer) {
            Ok(0) => break,
            Ok(_) => {}
            Err(_) => break,
        }
        while matches!(buffer.last(), Some(b'\n') | Some(b'\r')) {
            buffer.pop();
        }
        let line = String::from_utf8_lossy(&buffer).into_owned();
        let parts: Vec<&str> = line.split('\t').collect();
        let case_id = parts[0];
        let reply = if parts.len() < 2 {
            Reply::unsupported("malformed request: expected <case_id>\\t<op>\\t<arg>")
        } else {
            match guard(|| handle(parts[1], &parts[2..])) {
                Ok(reply) => reply,
                Err(caught) => Reply::panic("driver", &caught),
            }
        };
        let payload = serde_json::to_string(&reply.payload)
            .unwrap_or_else(|e| format!("\"unserializable payload: {e}\""));
        let mut out = stdout.lock();
        if writeln!(out, "{}\t{}\t{}", case_id, reply.status, payload).is_err()
            || out.flush().is_err()
        {
            break;
        }
    }
}
