#!/usr/bin/env python3
"""Self test of the pdl-drv driver and harness/lib/drv.py.

Builds the driver (work dir /verif/.cache/h2-selftest/, shared target dir
/verif/.cache/target-drv), runs every op, checks the replies against the shapes
promised by PROTOCOL.md section 2 and prints abbreviated replies.
Exit status 0 = all checks passed.
"""

import json
import pathlib
import sys
import time

HERE = pathlib.Path(__file__).resolve().parent
sys.path.insert(0, str(HERE.parent / "lib"))
import drv  # noqa: E402

CACHE = pathlib.Path("/verif/.cache")
WORK = CACHE / "h2-selftest"
TARGET = CACHE / "target-drv"
CANON = pathlib.Path("/repo/pdl-compiler/tests/canonical/le_test_file.pdl")
EXAMPLES = sorted(pathlib.Path("/repo/examples").glob("*.pdl"))

# Exclusion lists of /repo/pdl-compiler/tests/run_*_generator_tests.sh
EXCL_RUST = """UnsizedCustomField Packet_Custom_Field_VariableSize
Struct_Custom_Field_VariableSize_ Struct_Custom_Field_VariableSize Checksum
Packet_Checksum_Field_FromStart Packet_Checksum_Field_FromEnd
Struct_Checksum_Field_FromStart_ Struct_Checksum_Field_FromStart
Struct_Checksum_Field_FromEnd_ Struct_Checksum_Field_FromEnd
Packet_Array_Field_UnsizedElement_SizeModifier
Struct_Array_Field_UnsizedElement_SizeModifier_
Struct_Array_Field_UnsizedElement_SizeModifier
Packet_Array_ElementSize_UnsizedCustomField
Packet_Array_ElementSize_SizedCustomField""".split()
EXCL_PYTHON = """Packet_Array_Field_VariableElementSize_ConstantSize
Packet_Array_Field_VariableElementSize_VariableSize
Packet_Array_Field_VariableElementSize_VariableCount
Packet_Array_Field_VariableElementSize_UnknownSize""".split()
EXCL_CXX = """Packet_Custom_Field_ConstantSize Packet_Custom_Field_VariableSize
Packet_Checksum_Field_FromStart Packet_Checksum_Field_FromEnd
Struct_Custom_Field_ConstantSize Struct_Custom_Field_VariableSize
Struct_Checksum_Field_FromStart Struct_Checksum_Field_FromEnd
Struct_Custom_Field_ConstantSize_ Struct_Custom_Field_VariableSize_
Struct_Checksum_Field_FromStart_ Struct_Checksum_Field_FromEnd_""".split()
EXCL_JAVA = """SizedCustomField UnsizedCustomField Checksum
Packet_Body_Field_VariableSize Packet_Body_Field_UnknownSize
Packet_Body_Field_UnknownSize_Terminal Packet_Checksum_Field_FromStart
Packet_Checksum_Field_FromEnd Packet_Custom_Field_ConstantSize
Packet_Custom_Field_VariableSize
Packet_Array_Field_SizedElement_VariableSize_Padded
Packet_Array_Field_UnsizedElement_VariableCount_Padded
Packet_Array_Field_VariableElementSize_ConstantSize
Packet_Array_Field_VariableElementSize_VariableSize
Packet_Array_Field_VariableElementSize_VariableCount
Packet_Array_Field_VariableElementSize_UnknownSize
Packet_Optional_Scalar_Field Packet_Optional_Enum_Field
Packet_Optional_Struct_Field AliasedChild_A AliasedChild_B
Struct_Checksum_Field_FromStart_ Struct_Checksum_Field_FromStart
Struct_Checksum_Field_FromEnd_ Struct_Checksum_Field_FromEnd
Struct_Custom_Field_ConstantSize_ Struct_Custom_Field_ConstantSize
Struct_Custom_Field_VariableSize_ Struct_Custom_Field_VariableSize
Struct_Array_Field_SizedElement_VariableSize_Padded_
Struct_Array_Field_SizedElement_VariableSize_Padded
Struct_Array_Field_UnsizedElement_VariableCount_Padded_
Struct_Array_Field_UnsizedElement_VariableCount_Padded
Struct_Optional_Scalar_Field_ Struct_Optional_Scalar_Field
Struct_Optional_Enum_Field_ Struct_Optional_Enum_Field
Struct_Optional_Struct_Field_ Struct_Optional_Struct_Field""".split()

FAILURES = []


def check(cond, what):
    if not cond:
        FAILURES.append(what)
        print("  !! CHECK FAILED:", what)


def abbrev(value, limit=150):
    text = json.dumps(value, sort_keys=True)
    if len(text) > limit:
        text = text[:limit] + "...(%d chars)" % len(text)
    return text


def show(case_id, reply):
    status, payload = reply
    if isinstance(payload, dict):
        short = {}
        for k, v in payload.items():
            if k in ("text", "text2", "emit_text"):
                short[k] = "<%d chars>" % len(v)
            elif k in ("files", "files2"):
                short[k] = "<%d files, %d chars>" % (len(v), sum(map(len, v.values())))
            elif k == "ast":
                short[k] = "<ast: %d declarations>" % len(v.get("declarations", []))
            elif k == "schema":
                short[k] = "<schema: %d decls>" % len(v.get("decls", {}))
            else:
                short[k] = v
        payload = short
    print("%-28s %-11s %s" % (case_id, status, abbrev(payload, 260)))


def main():
    canon = CANON.read_text()

    t0 = time.monotonic()
    binary = drv.build(WORK, TARGET)
    t1 = time.monotonic()
    binary2 = drv.build(WORK, TARGET)
    t2 = time.monotonic()
    print("build: %.1fs, rebuild (no change): %.1fs -> %s" % (t1 - t0, t2 - t1, binary))
    check(binary == binary2 and binary.exists(), "build returns an existing, stable path")

    dup_field = "little_endian_packets\npacket A { x: 8, x: 8 }\n"
    bad_tag = "little_endian_packets\nenum E : 4 { A = 1, B = 16 }\n"
    parse_err = "little_endian_packets\npacket A { x: }\n"
    no_endian = "packet A { x: 8 }\n"
    dup_decl = "little_endian_packets\npacket A { x: 8 }\nstruct A { y: 8 }\n"
    panic_enum = "little_endian_packets\nenum E : 8 { X = .. }\npacket P { x: E }"
    panic_wide = "little_endian_packets\npacket Q { a:4, b:64, c:4 }"
    small = (
        "little_endian_packets\n"
        "enum E : 8 { A = 1, B = 2 }\n"
        "struct S { a: 8, b: 16 }\n"
        "packet P { _size_(x): 8, e: E, x: S[], y: 8[4], _padding_[8], _payload_ }\n"
        "packet C : P (e = A) { _count_(z): 8, z: 16[] }\n"
    )

    reqs = [
        ("canon.parse", "parse", canon),
        ("canon.analyze", "analyze", canon),
        ("canon.schema", "schema", canon),
        ("canon.gen.json", "generate", canon, "json"),
        ("canon.gen.rust", "generate", canon, "rust", "exclude=" + ",".join(EXCL_RUST)),
        ("canon.gen.python", "generate", canon, "python", "exclude=" + ",".join(EXCL_PYTHON)),
        ("canon.gen.cxx", "generate", canon, "cxx", "exclude=" + ",".join(EXCL_CXX)),
        ("canon.gen.java", "generate", canon, "java", "exclude=" + ",".join(EXCL_JAVA)),
        # without exclusions some backends hit todo!(): must come back as `panic`
        ("canon.gen.rust.noexcl", "generate", canon, "rust"),
        ("canon.gen.java.noexcl", "generate", canon, "java"),
        ("canon.gen2.rust", "generate2", canon, "rust", "exclude=" + ",".join(EXCL_RUST)),
        ("canon.gen2.python", "generate2", canon, "python", "exclude=" + ",".join(EXCL_PYTHON)),
        ("canon.gen2.cxx", "generate2", canon, "cxx", "exclude=" + ",".join(EXCL_CXX)),
        ("canon.gen2.java", "generate2", canon, "java", "exclude=" + ",".join(EXCL_JAVA)),
        ("canon.gen2.json", "generate2", canon, "json"),
        ("small.schema", "schema", small),
        ("err.dup_field", "analyze", dup_field),
        ("err.bad_tag", "analyze", bad_tag),
        ("err.dup_decl", "analyze", dup_decl),
        ("err.parse", "analyze", parse_err),
        ("err.parse2", "parse", no_endian),
        ("err.gen.dup_field", "generate", dup_field, "rust"),
        ("panic.enum", "generate", panic_enum, "rust"),
        ("panic.wide", "generate", panic_wide, "rust"),
        ("panic.enum.analyze", "analyze", panic_enum),
        ("bad.op", "frobnicate", small),
        ("bad.backend", "generate", small, "cobol"),
        ("bad.option", "generate", small, "rust", "frob=1"),
        ("after.bad", "parse", small),
    ]
    for path in EXAMPLES:
        text = path.read_text()
        for backend in ("rust", "python", "cxx", "java", "json"):
            reqs.append(("ex.%s.%s" % (path.stem, backend), "generate", text, backend))

    t0 = time.monotonic()
    res = drv.run(binary, reqs)
    print("run: %d requests in %.1fs" % (len(reqs), time.monotonic() - t0))
    for r in reqs:
        check(r[0] in res, "reply present for %s" % r[0])
        if r[0] in res:
            show(r[0], res[r[0]])

    def st(cid):
        return res.get(cid, ("missing", None))[0]

    def pl(cid):
        return res.get(cid, ("missing", {}))[1]

    # ---- canonical file, every op ----
    check(st("canon.parse") == "ok" and "declarations" in pl("canon.parse")["ast"], "parse ok")
    decl0 = pl("canon.parse")["ast"]["declarations"][0]
    check("loc" in decl0 and "key" not in decl0, "ast keeps loc, drops key")
    for cid in ("canon.analyze", "canon.schema"):
        check(st(cid) == "ok" and {"ast", "schema"} <= set(pl(cid)), cid + " ok with ast+schema")
    check(pl("canon.analyze")["schema"] == pl("canon.schema")["schema"], "analyze/schema same schema")
    n_ids = sum(1 for d in pl("canon.analyze")["ast"]["declarations"] if "id" in d)
    check(len(pl("canon.schema")["schema"]["decls"]) == n_ids, "one schema entry per decl id")
    check("panic" not in json.dumps(pl("canon.schema")["schema"]), "no schema query panicked")

    # compare the json backend with the pdlc binary when it exists
    pdlc = CACHE / "target" / "debug" / "pdlc"
    if pdlc.exists():
        import subprocess
        out = subprocess.run([str(pdlc), "--output-format", "json", str(CANON)],
                             capture_output=True, text=True, env={"RUST_BACKTRACE": "0"})
        ref = json.loads(out.stdout[out.stdout.index("{"):])
        check(ref == pl("canon.parse")["ast"], "parse ast == pdlc --output-format json")
        check(json.loads(pl("canon.gen.json")["text"]) == ref, "generate json == pdlc json")
        out = subprocess.run([str(pdlc), "--output-format", "python", str(CANON)]
                             + [a for d in EXCL_PYTHON for a in ("--exclude-declaration", d)],
                             capture_output=True, text=True, env={"RUST_BACKTRACE": "0"})
        mine = pl("canon.gen.python")["text"].splitlines()[1:]
        theirs = out.stdout[out.stdout.index("# File generated"):].splitlines()[1:]
        while theirs and theirs[-1] == "":
            theirs.pop()  # println! adds a newline
        while mine and mine[-1] == "":
            mine.pop()
        check(mine == theirs, "generate python == pdlc python (modulo file name line)")
    else:
        print("(no pdlc binary at %s: comparison skipped)" % pdlc)

    for b in ("json", "rust", "python", "cxx"):
        check(st("canon.gen." + b) == "ok" and len(pl("canon.gen." + b)["text"]) > 1000,
              "generate %s ok" % b)
        check(st("canon.gen2." + b) == "ok" and pl("canon.gen2." + b)["equal"] is True
              and "text2" not in pl("canon.gen2." + b), "generate2 %s equal" % b)
    check(st("canon.gen.java") == "ok" and len(pl("canon.gen.java")["files"]) > 10
          and all(k.endswith(".java") for k in pl("canon.gen.java")["files"]), "generate java ok")
    check(st("canon.gen2.java") == "ok" and isinstance(pl("canon.gen2.java")["equal"], bool),
          "generate2 java replies equal flag")
    if st("canon.gen2.java") == "ok" and not pl("canon.gen2.java")["equal"]:
        print("  note: java backend output differs between two calls")
        check("files2" in pl("canon.gen2.java"), "files2 present when different")
    for cid in ("canon.gen.rust.noexcl", "canon.gen.java.noexcl"):
        check(st(cid) == "panic" and pl(cid)["stage"] == "generate" and pl(cid).get("location"),
              cid + " -> panic with location")

    # ---- small schema: spot values ----
    sch = pl("small.schema")["schema"]["decls"]
    check(sch["S"]["total_size"] == "static:24", "S total 24 bits")
    fp = {f["id"] or f["kind"]: f for f in sch["P"]["fields"]}
    check(fp["x"]["kind"] == "array_field" and fp["x"]["element_size"] == "static:3"
          and fp["x"]["array_size"] == "size" and fp["x"]["field_size"] == "dynamic", "P.x array info")
    check(fp["y"]["array_size"] == "static:4" and fp["y"]["element_size"] == "static:1"
          and fp["y"]["field_size"] == "static:32" and fp["y"]["padded_size"] == 64, "P.y array info")
    check(fp["e"]["element_size"] is None and fp["e"]["array_size"] is None
          and fp["e"]["field_size"] == "static:8" and fp["e"]["padded_size"] is None, "P.e scalar info")
    check(fp["payload_field"]["field_size"] == "unknown", "P payload unknown")
    check([f["index"] for f in sch["P"]["fields"]] == list(range(len(sch["P"]["fields"]))), "indices")
    check(sch["C"]["parent_size"] == "dynamic" and sch["C"]["fields"][1]["array_size"] == "count", "C info")

    # ---- ill-formed sources ----
    def codes(cid):
        return [d["code"] for d in pl(cid).get("diagnostics", [])]

    check(st("err.dup_field") == "err" and pl("err.dup_field")["stage"] == "analyze"
          and codes("err.dup_field") == ["E11"], "duplicate field -> E11")
    d = pl("err.dup_field")
    check(d["emit_ok"] is True and d["emit_len"] > 0 and d["source_len"] == len(dup_field.encode()),
          "emit_ok/emit_len/source_len")
    lab = d["diagnostics"][0]["labels"]
    check(any(l["primary"] for l in lab) and all(0 <= l["start"] <= l["end"] <= d["source_len"] for l in lab),
          "labels well formed")
    check(d["diagnostics"][0]["severity"] == "error" and isinstance(d["diagnostics"][0]["notes"], list), "severity/notes")
    check(st("err.bad_tag") == "err" and "E14" in codes("err.bad_tag"), "tag out of range -> E14")
    check(st("err.dup_decl") == "err" and codes("err.dup_decl") == ["E1"], "duplicate decl -> E1")
    for cid in ("err.parse", "err.parse2"):
        p = pl(cid)
        check(st(cid) == "err" and p["stage"] == "parse" and p["code"] is None
              and isinstance(p["message"], str) and isinstance(p["labels"], list), cid + " -> parse error")
    check(st("err.gen.dup_field") == "err" and codes("err.gen.dup_field") == ["E11"], "generate reports analyzer error")

    # ---- compiler panics ----
    for cid in ("panic.enum", "panic.wide"):
        p = pl(cid)
        check(st(cid) == "panic" and p["stage"] == "generate" and p["message"] and p["location"],
              cid + " -> panic{stage,message,location}")
    check(st("panic.enum.analyze") == "ok", "analyze accepts the enum source")

    # ---- bad requests ----
    for cid in ("bad.op", "bad.backend", "bad.option"):
        check(st(cid) == "unsupported" and isinstance(pl(cid), str), cid + " -> unsupported")
    check(st("after.bad") == "ok", "driver alive after bad requests")

    # ---- examples ----
    for path in EXAMPLES:
        for backend in ("rust", "python", "cxx", "java", "json"):
            cid = "ex.%s.%s" % (path.stem, backend)
            check(st(cid) in ("ok", "panic", "err"), cid + " answered")
        check(st("ex.%s.json" % path.stem) == "ok", "example %s: json ok" % path.stem)

    # ---- abort / timeout handling in run() ----
    deep = "little_endian_packets\n" + "".join(
        "struct S%d { a: 8 }\n" % i for i in range(3))
    # raw malformed lines straight to the binary: one `unsupported` reply each
    import subprocess
    raw = "lonely\nm1\tparse\tnot json\nm2\tparse\nm3\tparse\t\"little_endian_packets\"\textra\n\nm4\tparse\t\"little_endian_packets\\n\"\n"
    out = subprocess.run([str(binary)], input=raw, capture_output=True, text=True).stdout.splitlines()
    for line in out:
        print("raw:", line[:150])
    check([l.split("\t")[:2] for l in out] ==
          [["lonely", "unsupported"], ["m1", "unsupported"], ["m2", "unsupported"],
           ["m3", "unsupported"], ["", "unsupported"], ["m4", "ok"]], "malformed lines -> unsupported")

    # A binary that dies / hangs on selected cases: shell script stand-ins.
    fake_dir = WORK / "fake"
    fake_dir.mkdir(parents=True, exist_ok=True)
    fake = fake_dir / "fake-drv"
    fake.write_text(
        "#!/bin/bash\n"
        "while IFS=$'\\t' read -r id op rest; do\n"
        "  case \"$id\" in\n"
        "    die*) echo boom >&2; kill -ABRT $$ ;;\n"
        "    exit*) exit 3 ;;\n"
        "    hang*) sleep 100 ;;\n"
        "    *) printf '%s\\tok\\t{\"op\":\"%s\",\"tmp\":\"%s\"}\\n' \"$id\" \"$op\" \"$PDL_DRV_TMP\" ;;\n"
        "  esac\n"
        "done\n")
    fake.chmod(0o755)
    ids = ["a1", "die1", "a2", "hang1", "a3", "exit1", "die2", "a4"]
    t0 = time.monotonic()
    res3 = drv.run(fake, [(i, "parse", "x\ty\n\"z\"") for i in ids], timeout_s=2, mem_limit_mb=None)
    dt = time.monotonic() - t0
    for i in ids:
        show("fake." + i, res3[i])
    check([res3[i][0] for i in ids] ==
          ["ok", "abort", "ok", "timeout", "ok", "abort", "abort", "ok"], "abort/timeout sequencing")
    check(res3["die1"][1].get("signal") == 6 and "boom" in res3["die1"][1].get("stderr", ""), "abort payload: signal+stderr")
    check(res3["exit1"][1].get("reason") == "exit" and res3["exit1"][1].get("code") == 3, "abort payload: exit code")
    check("reason" in res3["hang1"][1], "timeout payload")
    check(dt < 10, "timeout honoured (%.1fs)" % dt)
    tmpdir = pathlib.Path(res3["a1"][1]["tmp"])
    check(tmpdir.parent.parent == fake_dir and not tmpdir.exists(), "PDL_DRV_TMP under binary dir and cleaned")
    check(not (WORK / "tmp").exists() or not any((WORK / "tmp").iterdir()), "driver tmp dir cleaned")

    # real driver: stack overflow must surface as abort and the run continue
    # (chain of forward type references: the analyzer recurses once per link)
    n = 5000
    nest = "little_endian_packets\n" + "".join(
        "struct T%d { a: 8%s }\n" % (i, (", b: T%d" % (i + 1)) if i < n - 1 else "") for i in range(n))
    res4 = drv.run(binary, [("deep.before", "parse", deep), ("deep.analyze", "analyze", nest),
                            ("deep.after", "parse", deep)], timeout_s=60, stack_mb=1)
    for cid in ("deep.before", "deep.analyze", "deep.after"):
        show(cid, res4[cid])
    check(res4["deep.analyze"][0] == "abort" and res4["deep.analyze"][1].get("signal") in (6, 11)
          and "overflow" in res4["deep.analyze"][1].get("stderr", ""), "stack overflow -> abort")
    check(res4["deep.before"][0] == "ok" and res4["deep.after"][0] == "ok",
          "driver restarted after the aborting case")
    res5 = drv.run(binary, [("deep.analyze.64M", "analyze", nest)], timeout_s=60)
    show("deep.analyze.64M", res5["deep.analyze.64M"])
    check(res5["deep.analyze.64M"][0] == "ok", "same source fits the default 64 MiB stack")

    print()
    if FAILURES:
        print("SELFTEST FAILED: %d check(s)" % len(FAILURES))
        for f in FAILURES:
            print("  -", f)
        return 1
    print("SELFTEST PASSED")
    return 0


if __name__ == "__main__":
    sys.exit(main())
