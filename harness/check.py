#!/usr/bin/env python3
"""vp-check: decide one property on /repo's current working tree.

usage: check.py <Cnn> [--tier quick|thorough] [--replay FILE]
exit 0 = held on everything explored (KNOWN-FINDING lines possible);
exit 1 + "VIOLATION property=<id> replay=<path>" otherwise; exit 2 = infrastructure."""

import argparse
import importlib
import os
import pathlib
import sys
import time
import traceback

HERE = pathlib.Path(__file__).resolve().parent
sys.path.insert(0, str(HERE / "lib"))
sys.path.insert(0, str(HERE / "props"))

import common  # noqa: E402


def main():
    ap = argparse.ArgumentParser()
    ap.add_argument("prop")
    ap.add_argument("--tier", default=os.environ.get("VERIF_TIER", "quick"))
    ap.add_argument("--replay")
    a = ap.parse_args()
    tier = a.tier if a.tier in ("quick", "thorough") else "quick"
    seed = int(os.environ.get("VERIF_SEED", "1") or 1)
    t0 = time.time()
    try:
        mod = importlib.import_module(a.prop.lower())
    except ImportError:
        print(f"INFRA: no check for {a.prop}", flush=True)
        return 2
    try:
        if a.replay:
            return mod.replay(a.replay)
        gate = common.proof_gate(a.prop)
        res = mod.run(tier, seed)
        return common.finish(a.prop, tier, seed, t0, gate, res["coverage"], res["violations"],
                             res.get("known", []), level=res.get("level", "proof"),
                             assumptions=res.get("assumptions"))
    except common.Infra as e:
        print("INFRA: " + str(e)[:2000], flush=True)
        return 2
    except Exception:
        print("INFRA: " + traceback.format_exc()[-3000:], flush=True)
        return 2


if __name__ == "__main__":
    sys.exit(main())
