#!/usr/bin/env python3
"""Self-test of the Rust codec harness (harness/lib/rust_harness.py, PROTOCOL.md sections 0-1).

Builds a crate from five small modules in both profiles:

  m_le      /repo/pdl-compiler/tests/canonical/le_test_file.pdl with the exclusion list of
            /repo/pdl-compiler/tests/run_rust_generator_tests.sh
  m_inh     a small inheritance tree plus enums and a sized custom field
  m_reject  a module pdlc rejects              (-> build_report.json "failed_modules")
  m_arr33   `x: 8[33]`: pdlc accepts it, rustc does not (serde arrays stop at 32)
                                                (-> "uncompilable_modules")
  m_crash   witnesses that panic / overflow the stack / abort on allocation failure

then runs a dozen requests of every op, prints the replies and checks them.

Usage: python3 harness/rust/selftest.py [--profiles dev,release] [--quick]
Exit code 0 when every check passed.
"""

import argparse
import json
import os
import pathlib
import stat
import sys
import time

HERE = pathlib.Path(__file__).resolve().parent
sys.path.insert(0, str(HERE.parent / "lib"))
import rust_harness as rh  # noqa: E402

VERIF = HERE.parent.parent
CACHE = VERIF / ".cache"
WORK = CACHE / "h1-selftest"
TARGET = CACHE / "target-harness"
PDLC = CACHE / "target" / "debug" / "pdlc"
CANONICAL = pathlib.Path("/repo/pdl-compiler/tests/canonical")

# --exclude-declaration list of /repo/pdl-compiler/tests/run_rust_generator_tests.sh
LE_EXCLUDE = [
    "UnsizedCustomField",
    "Packet_Custom_Field_VariableSize",
    "Struct_Custom_Field_VariableSize_",
    "Struct_Custom_Field_VariableSize",
    "Checksum",
    "Packet_Checksum_Field_FromStart",
    "Packet_Checksum_Field_FromEnd",
    "Struct_Checksum_Field_FromStart_",
    "Struct_Checksum_Field_FromStart",
    "Struct_Checksum_Field_FromEnd_",
    "Struct_Checksum_Field_FromEnd",
    "Packet_Array_Field_UnsizedElement_SizeModifier",
    "Struct_Array_Field_UnsizedElement_SizeModifier_",
    "Struct_Array_Field_UnsizedElement_SizeModifier",
    "Packet_Array_ElementSize_UnsizedCustomField",
    "Packet_Array_ElementSize_SizedCustomField",
]

M_INH = """little_endian_packets
enum Color : 8 { RED = 1, GREEN = 2, SHADES = 0x10..0x1f { MID = 0x15 } }
enum Wide : 12 { W0 = 0, W1 = 0x801, OTHER = .. }
enum Huge : 64 { H0 = 0, HBIG = 0x20000000000001, HMAX = 0xffffffffffffffff }
custom_field CF24 : 24 "cf24"
packet P { a: 8, _payload_ }
packet A : P (a = 1) { x: 16 }
packet B : P (a = 2) { y: 8[] }
packet C : P (a = 3) { c: Color, _payload_ }
packet D : C (c = RED) { z: 8 }
struct S { c: Color, w: Wide, _reserved_: 4, f: CF24 }
"""

M_REJECT = """little_endian_packets
packet Q { x: Nope }
"""

M_ARR33 = """little_endian_packets
packet Arr { x: 8[33] }
"""

M_CRASH = """little_endian_packets
struct R { v: R[] }
struct U { v: 8[] }
packet PU { _count_(x): 40, x: U[] }
packet Opt { a: 1, _reserved_: 7, b: 16 if a = 1 }
packet Big { _count_(x): 64, x: 32[] }
"""

FAILURES = []


def check(cond, what):
    if cond:
        print("    [pass] " + what)
    else:
        print("    [FAIL] " + what)
        FAILURES.append(what)


def show(results, reqs, width=230):
    for req in reqs:
        cid = req[0]
        status, payload = results.get(cid, ("<missing>", None))
        text = json.dumps(payload, separators=(",", ":"))
        if len(text) > width:
            text = text[:width] + "...(%d chars)" % len(text)
        arg = req[4] if len(req[4]) <= 60 else req[4][:60] + "..."
        print("  %-22s %-24s %-16s %-28s -> %-11s %s" % (cid, (req[1] + "::" + req[2]).replace("\t", "\\t"), req[3], arg.replace("\t", "\\t").replace("\n", "\\n"), status, text))


def modules():
    return [
        {"name": "m_le", "pdl": (CANONICAL / "le_test_file.pdl").read_text(), "exclude": LE_EXCLUDE},
        {"name": "m_inh", "pdl": M_INH, "exclude": []},
        {"name": "m_reject", "pdl": M_REJECT, "exclude": []},
        {"name": "m_arr33", "pdl": M_ARR33, "exclude": []},
        {"name": "m_crash", "pdl": M_CRASH, "exclude": []},
    ]


def requests_for_ops():
    """A dozen (or so) requests per op; returns {op: [request, ...]}."""
    I, L = "m_inh", "m_le"
    ops = {}
    ops["decode"] = [
        ("decode-1", I, "P", "0134127f"), ("decode-2", I, "P", ""), ("decode-3", I, "A", "013412"),
        ("decode-4", I, "A", "01341256"), ("decode-5", I, "A", "023412"), ("decode-6", I, "B", "02010203"),
        ("decode-7", I, "D", "030142"), ("decode-8", I, "D", "030242"), ("decode-9", I, "S", "150108010203ff"),
        ("decode-10", I, "S", "030108010203"), ("decode-11", I, "CF24", "010203ff"),
        ("decode-12", L, "Packet_Scalar_Field", "ff03830282018100aa"),
        ("decode-13", L, "Packet_Enum_Field", "ff00000000000000"), ("decode-14", I, "P", "0G"),
    ]
    ops["decode_full"] = [
        ("full-1", I, "P", "0134127f"), ("full-2", I, "A", "013412"), ("full-3", I, "A", "01341256"),
        ("full-4", I, "B", "02"), ("full-5", I, "C", "0310aabb"), ("full-6", I, "C", "0303"),
        ("full-7", I, "D", "030109"), ("full-8", I, "S", "150108010203"), ("full-9", I, "S", "150108010203ff"),
        ("full-10", I, "CF24", "010203"), ("full-11", I, "CF24", "0102"),
        ("full-12", L, "Packet_Scalar_Field", "ff03830282018100"),
    ]
    ops["decode_mut"] = [
        ("mut-1", I, "P", "0134127f"), ("mut-2", I, "A", "0134"), ("mut-3", I, "A", "013412"),
        ("mut-4", I, "B", "0201"), ("mut-5", I, "D", "0301"), ("mut-6", I, "D", "030177"),
        ("mut-7", I, "S", "1501080102"), ("mut-8", I, "S", "150108010203ffee"), ("mut-9", I, "CF24", "010203ffee"),
        ("mut-10", I, "CF24", "01"), ("mut-11", L, "Packet_Scalar_Field", "00"),
        ("mut-12", L, "Packet_Scalar_Field", "ff03830282018100aabb"),
    ]
    ops["encode"] = [
        ("enc-1", I, "P", '{"a":7,"payload":[1,2,3]}'), ("enc-2", I, "A", '{"x":4660}'),
        ("enc-3", I, "B", '{"y":[1,2,3]}'), ("enc-4", I, "B", '{"y":[1,2,300]}'),
        ("enc-5", I, "C", '{"c":21,"payload":[9]}'), ("enc-6", I, "C", '{"c":3,"payload":[]}'),
        ("enc-7", I, "D", '{"z":66}'), ("enc-8", I, "S", '{"c":1,"w":2049,"f":66051}'),
        ("enc-9", I, "S", '{"c":1,"w":4096,"f":0}'), ("enc-10", I, "CF24", "16777215"),
        ("enc-11", I, "CF24", "16777216"), ("enc-12", I, "A", '{"x":1'),
        ("enc-13", L, "Packet_Scalar_Field", '{"a":127,"c":283686952306183}'),
        ("enc-14", L, "Packet_Scalar_Field", '{"a":128,"c":0}'),
    ]
    ops["roundtrip"] = [
        ("rt-1", I, "P", '{"a":1,"payload":[52,18]}'), ("rt-2", I, "A", '{"x":65535}'), ("rt-3", I, "B", '{"y":[]}'),
        ("rt-4", I, "B", '{"y":[255,0,1]}'), ("rt-5", I, "C", '{"c":2,"payload":[1]}'), ("rt-6", I, "D", '{"z":0}'),
        ("rt-7", I, "S", '{"c":21,"w":1,"f":1}'), ("rt-8", I, "S", '{"c":16,"w":4095,"f":16777215}'),
        ("rt-9", I, "CF24", "66051"), ("rt-10", I, "A", "[]"),
        ("rt-11", L, "Packet_Scalar_Field", '{"a":127,"c":144115188075855871}'),
        ("rt-12", L, "Packet_Scalar_Field", '{"a":0,"c":144115188075855872}'),
    ]
    ops["recode"] = [
        ("rc-1", I, "P", "0134127f"), ("rc-2", I, "A", "013412"), ("rc-3", I, "A", "0134"), ("rc-4", I, "B", "02010203"),
        ("rc-5", I, "C", "0315aabb"), ("rc-6", I, "D", "030109"), ("rc-7", I, "D", "030209"),
        ("rc-8", I, "S", "150108010203"), ("rc-9", I, "S", "1501f8010203"), ("rc-10", I, "CF24", "010203"),
        ("rc-11", L, "Packet_Scalar_Field", "ff03830282018100"), ("rc-12", L, "Packet_Scalar_Field", "ff"),
    ]
    ops["specialize"] = [
        ("sp-1", I, "P", "013412"), ("sp-2", I, "P", "02010203"), ("sp-3", I, "P", "0301aa"), ("sp-4", I, "P", "0501"),
        ("sp-5", I, "P", "0101"), ("sp-6", I, "P", ""), ("sp-7", I, "C", "030142"), ("sp-8", I, "C", "030242"),
        ("sp-9", I, "C", "0301"), ("sp-10", I, "C", "03014243"), ("sp-11", I, "A", "013412"), ("sp-12", I, "S", "00"),
        ("sp-13", I, "P", "0303"),
    ]
    ops["try_from_parent"] = [
        ("tfp-1", I, "A", "P\t013412"), ("tfp-2", I, "A", "P\t023412"), ("tfp-3", I, "A", "P\t0134"),
        ("tfp-4", I, "B", "P\t02010203"), ("tfp-5", I, "C", "P\t0302ff"), ("tfp-6", I, "D", "C\t030142"),
        ("tfp-7", I, "D", "P\t030142"), ("tfp-8", I, "D", "P\t030242"), ("tfp-9", I, "D", "P\t0301"),
        ("tfp-10", I, "D", "A\t030142"), ("tfp-11", I, "P", "P\t00"), ("tfp-12", I, "A", "P\t"),
        ("tfp-13", I, "A", "013412"),
    ]
    ops["to_parent"] = [
        ("tp-1", I, "A", 'P\t{"x":513}'), ("tp-2", I, "B", 'P\t{"y":[1,2,3]}'), ("tp-3", I, "B", 'P\t{"y":[]}'),
        ("tp-4", I, "C", 'P\t{"c":2,"payload":[7,8]}'), ("tp-5", I, "D", 'C\t{"z":9}'), ("tp-6", I, "D", 'P\t{"z":9}'),
        ("tp-7", I, "D", 'B\t{"z":9}'), ("tp-8", I, "A", 'P\t{"x":70000}'), ("tp-9", I, "P", 'P\t{"a":1,"payload":[]}'),
        ("tp-10", I, "A", '{"x":1}'), ("tp-11", I, "C", 'P\t{"c":21,"payload":[]}'), ("tp-12", I, "D", 'P\t{"z":255}'),
    ]
    ops["default"] = [
        ("def-1", I, "P", ""), ("def-2", I, "A", ""), ("def-3", I, "B", ""), ("def-4", I, "C", ""), ("def-5", I, "D", ""),
        ("def-6", I, "S", ""), ("def-7", I, "CF24", ""), ("def-8", L, "Packet_Scalar_Field", ""),
        ("def-9", L, "Packet_Enum_Field", ""), ("def-10", L, "Packet_Array_Field_ByteElement_ConstantSize", ""),
        ("def-11", I, "Color", ""), ("def-12", I, "Nope", ""),
    ]
    ops["alloc_decode"] = [
        ("ad-1", I, "P", "01" + "00" * 1000), ("ad-2", I, "B", "02" + "11" * 4096), ("ad-3", I, "A", "013412"),
        ("ad-4", I, "A", "01"), ("ad-5", I, "S", "150108010203"), ("ad-6", I, "CF24", "010203"),
        ("ad-7", "m_crash", "Big", "ffffffffffffff3f00"), ("ad-8", "m_crash", "PU", "0300000000"),
        ("ad-9", "m_crash", "Opt", "00"), ("ad-10", I, "D", "030142"), ("ad-11", I, "P", ""),
        ("ad-12", L, "Packet_Scalar_Field", "ff03830282018100"),
    ]
    ops["enum_from"] = [
        ("ef-1", I, "Color", "1"), ("ef-2", I, "Color", "3"), ("ef-3", I, "Color", "21"), ("ef-4", I, "Color", "22"),
        ("ef-5", I, "Color", "255"), ("ef-6", I, "Color", "256"), ("ef-7", I, "Wide", "2049"), ("ef-8", I, "Wide", "4095"),
        ("ef-9", I, "Wide", "4096"), ("ef-10", I, "Wide", "65536"), ("ef-11", I, "Huge", "9007199254740993"),
        ("ef-12", I, "Huge", "18446744073709551615"), ("ef-13", I, "Huge", "18446744073709551614"),
        ("ef-14", I, "Huge", "18446744073709551616"), ("ef-15", I, "Color", "abc"), ("ef-16", I, "P", "1"),
    ]
    ops["enum_sweep"] = [
        ("es-1", I, "Color", "0\t40"), ("es-2", I, "Color", "0\t300"), ("es-3", I, "Color", "16\t31"),
        ("es-4", I, "Wide", "0\t5000"), ("es-5", I, "Wide", "4090\t4100"), ("es-6", I, "Wide", "65530\t65540"),
        ("es-7", I, "Huge", "0\t3"), ("es-8", I, "Huge", "9007199254740990\t9007199254740995"),
        ("es-9", I, "Huge", "18446744073709551610\t18446744073709551615"), ("es-10", I, "Color", "5\t4"),
        ("es-11", I, "Color", "0\t1048576"), ("es-12", I, "Color", "0\t1048575"),
        ("es-13", L, "Enum7", "0\t255"), ("es-14", L, "Enum16", "0\t65535"),
    ]
    ops["enum_default"] = [
        ("ed-1", I, "Color", ""), ("ed-2", I, "Wide", ""), ("ed-3", I, "Huge", ""), ("ed-4", L, "Enum7", ""),
        ("ed-5", L, "Enum16", ""), ("ed-6", I, "P", ""), ("ed-7", I, "CF24", ""), ("ed-8", I, "Nope", ""),
        ("ed-9", "nomod", "Color", ""), ("ed-10", L, "Enum_Complete_WithRange_", ""), ("ed-11", I, "Color", "ignored"),
        ("ed-12", I, "Wide", ""),
    ]
    return {op: [(cid, m, t, op, arg) for (cid, m, t, arg) in lst] for op, lst in ops.items()}


def check_replies(res):
    st = lambda cid: res[cid][0]
    pl = lambda cid: res[cid][1]
    check(res["decode-1"] == ("ok", {"value": {"a": 1, "payload": [0x34, 0x12, 0x7f]}, "rest": ""}), "decode P")
    check(st("decode-2") == "err" and pl("decode-2")["variant"] == "LengthError", "decode P of empty input -> LengthError")
    check(res["decode-4"] == ("err", pl("decode-4")) and pl("decode-4")["variant"] == "TrailingBytesError",
          "decode child with trailing payload bytes -> TrailingBytesError")
    check(pl("decode-5").get("variant") == "ConstraintValueError", "decode A with a=2 -> ConstraintValueError")
    check(res["decode-7"] == ("ok", {"value": {"z": 0x42}, "rest": ""}), "decode grandchild D")
    check(pl("decode-9") == {"value": {"c": 0x15, "w": 0x801, "f": 0x030201}, "rest": "ff"}, "decode S (enum, 12-bit enum, custom field) with rest")
    check(pl("decode-10").get("variant") == "EnumValueError", "decode S with bad enum -> EnumValueError")
    check(res["decode-11"] == ("ok", {"value": 0x030201, "rest": "ff"}), "decode sized custom field")
    check(res["decode-12"][0] == "ok" and pl("decode-12")["rest"] == "aa" and pl("decode-12")["value"] == {"a": 127, "c": 283686952306183}, "decode canonical Packet_Scalar_Field")
    check(st("decode-14") == "unsupported", "bad hex -> unsupported")
    check(pl("full-3").get("variant") == "TrailingBytesError" and st("full-9") == "err", "decode_full trailing bytes")
    check(res["mut-2"] == ("err", pl("mut-2")) and pl("mut-2")["rest"] == "0134", "decode_mut error leaves the slice alone")
    check(res["mut-8"][0] == "ok" and pl("mut-8")["rest"] == "ffee", "decode_mut advances the slice")
    check(pl("enc-3") == {"vec": {"ok": "02010203"}, "bytes": {"ok": "02010203"}, "into_vec": {"ok": "deadbeef02010203"},
                          "into_bytesmut": {"ok": "deadbeef02010203"}, "len": 4}, "encode B: all five results")
    check(st("enc-4") == "unsupported" and st("enc-12") == "unsupported" and st("enc-11") == "unsupported", "encode of JSON serde rejects -> unsupported")
    check(pl("enc-14")["vec"].get("err") == "InvalidScalarValue" and pl("enc-14")["into_vec"].get("err") == "InvalidScalarValue",
          "encode out-of-range scalar -> {'err': 'InvalidScalarValue'}")
    check(res["rt-2"] == ("ok", {"hex": "01ffff", "value": {"x": 65535}}), "roundtrip A")
    check(st("rt-12") == "err" and pl("rt-12")["stage"] == "encode", "roundtrip with encode error names the stage")
    check(res["rc-4"] == ("ok", {"value": {"y": [1, 2, 3]}, "hex": "02010203"}), "recode B")
    check(st("rc-3") == "err" and pl("rc-3")["stage"] == "decode", "recode decode error names the stage")
    check(res["sp-1"] == ("ok", {"child": "A", "value": {"x": 0x1234}, "rest": ""}), "specialize P -> A")
    check(pl("sp-3")["child"] == "C" and pl("sp-3")["value"] == {"c": 1, "payload": [0xaa]}, "specialize P -> C")
    check(res["sp-4"] == ("none", {}), "specialize P with unknown discriminant -> none {}")
    check(st("sp-5") == "err" and pl("sp-5")["stage"] == "specialize", "specialize error stage")
    check(st("sp-6") == "err" and pl("sp-6")["stage"] == "decode", "specialize decode stage")
    check(pl("sp-7") == {"child": "D", "value": {"z": 0x42}, "rest": ""} and st("sp-8") == "none", "specialize C -> D / none")
    check(st("sp-11") == "unsupported" and st("sp-12") == "unsupported", "specialize on a type without children -> unsupported")
    check(res["tfp-1"] == ("ok", {"value": {"x": 0x1234}}), "try_from_parent A <- P")
    check(pl("tfp-2")["stage"] == "convert" and pl("tfp-2")["variant"] == "ConstraintValueError", "try_from_parent convert error")
    check(res["tfp-6"] == ("ok", {"value": {"z": 0x42}}) and res["tfp-7"] == ("ok", {"value": {"z": 0x42}}), "try_from_parent D <- C and D <- P (grand-parent)")
    check(st("tfp-8") == "err" and st("tfp-9") == "err", "try_from_parent grand-parent errors")
    check(st("tfp-10") == "unsupported" and st("tfp-11") == "unsupported" and st("tfp-13") == "unsupported", "try_from_parent with a non-ancestor -> unsupported")
    check(pl("tfp-12").get("stage") == "decode", "try_from_parent decode stage")
    check(pl("tp-1") == {"value": {"a": 1, "payload": [1, 2]}, "hex": {"ok": "010102"}, "child_hex": {"ok": "010102"}, "back": {"x": 513}}, "to_parent A -> P")
    check(pl("tp-6")["value"] == {"a": 3, "payload": [1, 9]} and pl("tp-6")["back"] == {"z": 9} and pl("tp-6")["hex"] == pl("tp-6")["child_hex"], "to_parent D -> P (grand-parent)")
    check(st("tp-7") == "unsupported" and st("tp-9") == "unsupported" and st("tp-10") == "unsupported" and st("tp-8") == "unsupported", "to_parent non-ancestor / bad json -> unsupported")
    check(res["def-1"] == ("ok", {"value": {"a": 0, "payload": []}}) and res["def-7"] == ("ok", {"value": 0}), "default")
    check(st("def-11") == "unsupported" and st("def-12") == "unsupported", "default on enum / unknown type -> unsupported")
    check(pl("ad-2")["alloc_peak"] >= 4096 and pl("ad-2")["alloc_total"] >= 4096 and pl("ad-2")["rest"] == "", "alloc_decode counts the payload allocation")
    check(pl("ad-6")["alloc_total"] == 0, "alloc_decode of a scalar allocates nothing")
    check(st("ad-4") == "err" and "alloc_total" in pl("ad-4"), "alloc_decode error still carries counters")
    check(res["ef-1"] == ("ok", {"back": 1, "debug": "Red", "u64": 1}), "enum_from named")
    check(res["ef-2"] == ("err", {"value": 3}), "enum_from invalid value -> err {value}")
    check(pl("ef-3")["debug"] == "Mid" and pl("ef-4")["debug"] == "Shades(22)", "enum_from range / nested tag")
    check(res["ef-6"] == ("err", {"too_wide": True}) and res["ef-10"] == ("err", {"too_wide": True}), "enum_from too wide for backing type")
    check(st("ef-8") == "ok" and res["ef-9"] == ("err", {"value": 4096}), "enum_from 12-bit enum in u16")
    check(res["ef-11"] == ("ok", {"back": "9007199254740993", "debug": "Hbig", "u64": "9007199254740993"}), "integers above 2^53 are strings")
    check(res["ef-13"] == ("err", {"value": "18446744073709551614"}) and st("ef-14") == "unsupported" and st("ef-15") == "unsupported" and st("ef-16") == "unsupported", "enum_from error cases")
    check(pl("es-1") == {"runs": [[0, 1, "err"], [1, 2, "ok"], [3, 13, "err"], [16, 16, "ok"], [32, 9, "err"]],
                         "named": {"1": "Red", "2": "Green", "21": "Mid"}}, "enum_sweep Color 0..40")
    check(pl("es-2")["runs"][-1] == [256, 45, "wide"], "enum_sweep past the backing type -> wide")
    check(pl("es-4")["runs"] == [[0, 4096, "ok"], [4096, 905, "err"]], "enum_sweep open 12-bit enum")
    check(pl("es-9")["runs"] == [["18446744073709551610", 5, "err"], ["18446744073709551615", 1, "ok"]], "enum_sweep at the top of u64")
    check(st("es-10") == "unsupported" and st("es-11") == "unsupported" and st("es-12") == "ok", "enum_sweep range limits")
    check(res["ed-1"] == ("ok", {"back": 1, "debug": "Red", "u64": 1}) and st("ed-6") == "unsupported" and st("ed-8") == "unsupported" and st("ed-9") == "unsupported", "enum_default")


def canonical_vectors(binary):
    """recode every canonical test vector of the non-excluded packets: hex must come back unchanged."""
    vectors = json.loads((CANONICAL / "le_test_vectors.json").read_text())
    report = json.loads((binary.parent.parent.parent / "build_report.json").read_text())
    known = {t["id"] for t in report["modules"]["m_le"]["types"]}
    reqs, want = [], {}
    for group in vectors:
        for i, test in enumerate(group["tests"]):
            ty = test.get("packet", group["packet"])
            if ty not in known or "expected_error" in test:
                continue
            cid = "vec-%s-%d" % (group["packet"], i)
            reqs.append((cid, "m_le", ty, "recode", test["packed"]))
            want[cid] = test["packed"]
    res = rh.run(binary, reqs)
    bad = [c for c in want if res[c][0] != "ok" or res[c][1]["hex"] != want[c]]
    for c in bad[:5]:
        print("    mismatch", c, res[c])
    check(len(reqs) > 300 and not bad, "canonical LE vectors: %d recode requests give back the packed bytes" % len(reqs))


def robustness(binary, work):
    H = rh.HARNESS_MODULE
    reqs = [
        ("rb-ok-1", H, "-", "echo", "hello\tworld"),
        ("rb-panic", H, "-", "panic", "boom \"quoted\""),
        ("rb-stack", H, "-", "stack_overflow", ""),
        ("rb-ok-2", "m_inh", "A", "decode", "013412"),
        ("rb-abort", H, "-", "abort", ""),
        ("rb-alloc-small", H, "-", "alloc", "1000000"),
        ("rb-alloc-refused", H, "-", "alloc", str(65 << 20)),
        ("rb-ok-3", "m_inh", "Color", "enum_default", ""),
        ("rb-hang", H, "-", "hang", ""),
        ("rb-ok-4", H, "-", "echo", "still alive"),
        ("rb-tab", "m_crash", "Opt\tx", "decode", "00"),
        ("rb-newline", "m_crash", "Opt", "decode", "00\n00"),
    ]
    t0 = time.monotonic()
    res = rh.run(binary, reqs, timeout_s=3, env={"PDL_HARNESS_ALLOC_MAX_MB": "64"})
    print("  (%.2f s)" % (time.monotonic() - t0))
    show(res, reqs)
    check(all(res[c][0] == "ok" for c in ("rb-ok-1", "rb-ok-2", "rb-ok-3", "rb-ok-4")) and res["rb-ok-1"][1] == {"echo": "hello\tworld"},
          "cases around crashes are answered")
    check(res["rb-panic"] == ("panic", 'boom "quoted"'), "panic is caught; payload is the message")
    check(res["rb-stack"][0] == "abort" and res["rb-stack"][1].get("signal") in ("SIGABRT", "SIGSEGV")
          and "overflowed its stack" in res["rb-stack"][1].get("stderr", ""), "stack overflow -> abort + restart")
    check(res["rb-abort"][0] == "abort" and res["rb-abort"][1].get("signal") == "SIGABRT", "process abort -> abort + restart")
    check(res["rb-alloc-small"][0] == "ok" and res["rb-alloc-small"][1]["alloc_total"] == 1000000 and res["rb-alloc-small"][1]["alloc_peak"] == 1000000,
          "counting allocator sees a 1 MB reservation")
    check(res["rb-alloc-refused"][0] == "abort" and "memory allocation of" in res["rb-alloc-refused"][1].get("stderr", ""),
          "allocation above the limit is refused -> abort + restart")
    check(res["rb-hang"][0] == "timeout", "hang -> timeout + restart")
    check(res["rb-tab"][0] == "unsupported" and res["rb-newline"][0] == "unsupported", "requests that would break the line protocol are refused by run()")

    # Witnesses of (possibly already fixed) defects of the generated code: whatever they do,
    # every one of them must get a reply or an abort/timeout, and the last case must be answered.
    M = "m_crash"
    reqs = [
        ("w-opt", M, "Opt", "decode", "01"),
        ("w-recursion", M, "R", "decode", "00"),
        ("w-count40", M, "PU", "decode", "ffffffffff00"),
        ("w-count64-mul", M, "Big", "decode", "ffffffffffffff7f"),
        ("w-count64-alloc", M, "Big", "alloc_decode", "ffffffffffffff3f00"),
        ("w-last", M, "Opt", "decode", "010203"),
    ]
    t0 = time.monotonic()
    res = rh.run(binary, reqs, timeout_s=60, env={"PDL_HARNESS_ALLOC_MAX_MB": "64"})
    print("  (%.2f s)" % (time.monotonic() - t0))
    show(res, reqs)
    check(all(res[r[0]][0] in ("ok", "err", "panic", "abort", "timeout") for r in reqs) and res["w-last"][0] == "ok",
          "defect witnesses: every case accounted for (%s)" % ", ".join("%s=%s" % (r[0], res[r[0]][0]) for r in reqs))

    # a driver that hangs: use a fake driver script (first request answered, second never)
    fake = work / "fake_driver.py"
    fake.write_text(
        "#!%s\nimport sys, time\n"
        "for line in sys.stdin:\n"
        "    cid = line.split('\\t')[0]\n"
        "    if cid.startswith('hang'):\n"
        "        time.sleep(1000)\n"
        "    if cid.startswith('exit'):\n"
        "        sys.exit(3)\n"
        "    if cid.startswith('garbage'):\n"
        "        print('what?'); sys.stdout.flush(); continue\n"
        "    print(cid + '\\tok\\t{\"echo\":true}'); sys.stdout.flush()\n" % sys.executable)
    fake.chmod(fake.stat().st_mode | stat.S_IXUSR)
    reqs = [("a1", "m", "T", "decode", ""), ("hang1", "m", "T", "decode", ""), ("a2", "m", "T", "decode", ""),
            ("exit1", "m", "T", "decode", ""), ("a3", "m", "T", "decode", ""), ("garbage1", "m", "T", "decode", ""),
            ("a4", "m", "T", "decode", "")]
    t0 = time.monotonic()
    res = rh.run(fake, reqs, timeout_s=2, mem_limit_mb=0)
    dt = time.monotonic() - t0
    show(res, reqs)
    check([res[r[0]][0] for r in reqs] == ["ok", "timeout", "ok", "abort", "ok", "abort", "ok"] and dt < 10,
          "hang -> timeout, exit -> abort, garbage -> abort; the rest is answered (%.1f s)" % dt)
    check("exited with code 3" in res["exit1"][1].get("reason", ""), "abort payload gives the exit code")


def bisect_fallback(work, profile):
    """Exercise the compile-each-module-alone path directly."""
    gens = {}
    st = PDLC.stat()
    stamp = "%s:%d:%d" % (PDLC, st.st_mtime_ns, st.st_size)
    mods = [m for m in modules() if m["name"] in ("m_inh", "m_arr33")]
    for m in mods:
        (work / "pdl").mkdir(parents=True, exist_ok=True)
        gens[m["name"]] = rh._generate_module(m, work, PDLC, stamp, 60)
    report = {"cargo_runs": []}
    t0 = time.monotonic()
    with rh._target_lock(TARGET):
        bad = rh._bisect_alone(work, TARGET, gens, ["m_inh", "m_arr33"], profile, 600, report)
    print("  alone-check of 2 modules: %.1f s; blamed: %s" % (time.monotonic() - t0, sorted(bad)))
    check(sorted(bad) == ["m_arr33"] and "Serialize" in "\n".join(bad["m_arr33"]), "per-module cargo check blames exactly m_arr33")


def main():
    ap = argparse.ArgumentParser()
    ap.add_argument("--profiles", default="dev,release")
    ap.add_argument("--quick", action="store_true", help="skip the bisect fallback and rebuild timing")
    args = ap.parse_args()
    if not PDLC.is_file():
        sys.exit("pdlc not found at %s" % PDLC)
    WORK.mkdir(parents=True, exist_ok=True)
    TARGET.mkdir(parents=True, exist_ok=True)

    for profile in [p for p in args.profiles.split(",") if p]:
        print("=" * 100)
        print("PROFILE %s" % profile)
        print("=" * 100)
        work = WORK / profile
        t0 = time.monotonic()
        binary = rh.build(modules(), work, profile, PDLC, TARGET)
        t_build = time.monotonic() - t0
        report = json.loads((work / "build_report.json").read_text())
        print("build: %.1f s  -> %s" % (t_build, binary))
        print("  cargo runs: %s" % json.dumps(report["cargo_runs"]))
        print("  timings   : %s" % json.dumps(report["timings"]))
        print("  failed_modules      : %s" % {k: v.splitlines()[0][:110] for k, v in report["failed_modules"].items()})
        print("  uncompilable_modules: %s" % {k: v.splitlines()[0][:110] for k, v in report["uncompilable_modules"].items()})
        print("  modules built       : %s" % {k: len(v["types"]) for k, v in report["modules"].items()})
        check(binary.is_file() and os.access(binary, os.X_OK), "binary exists")
        check(set(report["failed_modules"]) == {"m_reject"} and "Nope" in report["failed_modules"]["m_reject"], "m_reject reported under failed_modules with pdlc's stderr")
        check(set(report["uncompilable_modules"]) == {"m_arr33"} and "[u8; 33]" in report["uncompilable_modules"]["m_arr33"]
              and len(report["uncompilable_modules"]["m_arr33"]) <= 2048, "m_arr33 reported under uncompilable_modules (<= 2 kB of rustc error)")
        check(set(report["modules"]) == {"m_le", "m_inh", "m_crash"}, "the other three modules are built")
        cargo_toml = (work / "Cargo.toml").read_text()
        check("[workspace]" in cargo_toml and (work / "Cargo.lock").is_file() and "offline = true" in (work / ".cargo" / "config.toml").read_text(), "crate layout (empty [workspace], Cargo.lock, .cargo/config.toml)")

        if not args.quick:
            mt = {p: p.stat().st_mtime_ns for p in (work / "src").rglob("*.rs")}
            t0 = time.monotonic()
            binary2 = rh.build(modules(), work, profile, PDLC, TARGET)
            t_again = time.monotonic() - t0
            unchanged = all(p.stat().st_mtime_ns == m for p, m in mt.items())
            print("rebuild without changes: %.1f s" % t_again)
            check(binary2 == binary and unchanged, "unchanged sources are not rewritten")
            changed = modules()
            changed[1]["pdl"] += "packet Extra { q: 8 }\n"
            t0 = time.monotonic()
            rh.build(changed, work, profile, PDLC, TARGET)
            print("rebuild after changing m_inh only: %.1f s" % (time.monotonic() - t0))
            rh.build(modules(), work, profile, PDLC, TARGET)

        by_op = requests_for_ops()
        allreqs = [r for op in by_op for r in by_op[op]]
        t0 = time.monotonic()
        res = rh.run(binary, allreqs)
        print("\n%d requests answered in %.2f s" % (len(allreqs), time.monotonic() - t0))
        check(len(res) == len(allreqs) and all(r[0] in res for r in allreqs), "one reply per request")
        for op, reqs in by_op.items():
            print("\n-- op %s (%d requests)" % (op, len(reqs)))
            show(res, reqs)
        print("\n-- checks")
        check_replies(res)
        print("\n-- canonical vectors")
        canonical_vectors(binary)
        print("\n-- robustness")
        robustness(binary, work)
        if not args.quick and profile == "dev":
            print("\n-- bisect fallback (each module alone)")
            bisect_fallback(WORK / "bisect-fallback", profile)

    print("\n" + "=" * 100)
    if FAILURES:
        print("SELFTEST FAILED: %d check(s)" % len(FAILURES))
        for f in FAILURES:
            print("  - " + f)
        sys.exit(1)
    print("SELFTEST PASSED")


if __name__ == "__main__":
    main()
