// Static part of the Rust codec harness (PROTOCOL.md sections 0 and 1).
//
// This file is copied verbatim to `<work_dir>/src/driver.rs` by
// `harness/lib/rust_harness.py`. The generated `dispatch.rs` / `dispatch/<module>.rs`
// files map `(module, type)` to instantiations of the generic functions below.
//
// Conventions:
//   request : <case_id>\t<module>\t<type>\t<op>\t<arg>
//   reply   : <case_id>\t<status>\t<payload>      (flushed after every line)

use std::alloc::{GlobalAlloc, Layout, System};
use std::any::Any;
use std::fmt::Debug;
use std::io::{BufRead, Write};
use std::panic::{catch_unwind, AssertUnwindSafe};
use std::sync::atomic::{AtomicUsize, Ordering::Relaxed};

use bytes::BytesMut;
use pdl_runtime::{DecodeError, EncodeError, Packet};
use serde::de::DeserializeOwned;
use serde::Serialize;

// ---------------------------------------------------------------------------
// Counting global allocator
// ---------------------------------------------------------------------------

pub struct CountingAlloc;

static ALLOC_CUR: AtomicUsize = AtomicUsize::new(0);
static ALLOC_TOTAL: AtomicUsize = AtomicUsize::new(0);
static ALLOC_PEAK: AtomicUsize = AtomicUsize::new(0);
static ALLOC_REFUSED_MAX: AtomicUsize = AtomicUsize::new(0);
static ALLOC_REFUSED_COUNT: AtomicUsize = AtomicUsize::new(0);
/// Single requests above this many bytes are refused (null is returned).
static ALLOC_LIMIT: AtomicUsize = AtomicUsize::new(1 << 30);

#[inline]
fn note_alloc(requested: usize, grown: usize) {
    ALLOC_TOTAL.fetch_add(requested, Relaxed);
    let cur = ALLOC_CUR.fetch_add(grown, Relaxed).wrapping_add(grown);
    ALLOC_PEAK.fetch_max(cur, Relaxed);
}

#[inline]
fn note_refused(size: usize) {
    ALLOC_REFUSED_COUNT.fetch_add(1, Relaxed);
    ALLOC_REFUSED_MAX.fetch_max(size, Relaxed);
}

unsafe impl GlobalAlloc for CountingAlloc {
    unsafe fn alloc(&self, layout: Layout) -> *mut u8 {
        let n = layout.size();
        if n > ALLOC_LIMIT.load(Relaxed) {
            note_refused(n);
            return std::ptr::null_mut();
        }
        let p = System.alloc(layout);
        if !p.is_null() {
            note_alloc(n, n);
        }
        p
    }

    unsafe fn alloc_zeroed(&self, layout: Layout) -> *mut u8 {
        let n = layout.size();
        if n > ALLOC_LIMIT.load(Relaxed) {
            note_refused(n);
            return std::ptr::null_mut();
        }
        let p = System.alloc_zeroed(layout);
        if !p.is_null() {
            note_alloc(n, n);
        }
        p
    }

    unsafe fn dealloc(&self, ptr: *mut u8, layout: Layout) {
        System.dealloc(ptr, layout);
        ALLOC_CUR.fetch_sub(layout.size(), Relaxed);
    }

    unsafe fn realloc(&self, ptr: *mut u8, layout: Layout, new_size: usize) -> *mut u8 {
        if new_size > ALLOC_LIMIT.load(Relaxed) {
            note_refused(new_size);
            return std::ptr::null_mut();
        }
        let p = System.realloc(ptr, layout, new_size);
        if !p.is_null() {
            let old = layout.size();
            if new_size >= old {
                note_alloc(new_size, new_size - old);
            } else {
                ALLOC_TOTAL.fetch_add(new_size, Relaxed);
                ALLOC_CUR.fetch_sub(old - new_size, Relaxed);
            }
        }
        p
    }
}

#[global_allocator]
static GLOBAL: CountingAlloc = CountingAlloc;

struct AllocSnapshot {
    base: usize,
}

fn alloc_reset() -> AllocSnapshot {
    let base = ALLOC_CUR.load(Relaxed);
    ALLOC_TOTAL.store(0, Relaxed);
    ALLOC_PEAK.store(base, Relaxed);
    ALLOC_REFUSED_MAX.store(0, Relaxed);
    ALLOC_REFUSED_COUNT.store(0, Relaxed);
    AllocSnapshot { base }
}

/// `,"alloc_total":n,"alloc_peak":n[,"alloc_refused":n,"alloc_refused_count":n]`
fn alloc_report(snap: &AllocSnapshot) -> String {
    let total = ALLOC_TOTAL.load(Relaxed);
    let peak = ALLOC_PEAK.load(Relaxed).saturating_sub(snap.base);
    let refused = ALLOC_REFUSED_MAX.load(Relaxed);
    let mut s = format!(",\"alloc_total\":{},\"alloc_peak\":{}", total, peak);
    if refused > 0 {
        s.push_str(&format!(
            ",\"alloc_refused\":{},\"alloc_refused_count\":{}",
            refused,
            ALLOC_REFUSED_COUNT.load(Relaxed)
        ));
    }
    s
}

// ---------------------------------------------------------------------------
// Replies and small helpers
// ---------------------------------------------------------------------------

pub struct Reply {
    pub status: &'static str,
    pub payload: String,
}

pub fn ok(payload: String) -> Reply {
    Reply { status: "ok", payload }
}

pub fn err(payload: String) -> Reply {
    Reply { status: "err", payload }
}

pub fn none() -> Reply {
    Reply { status: "none", payload: "{}".to_string() }
}

pub fn unsupported(why: impl AsRef<str>) -> Reply {
    Reply { status: "unsupported", payload: jstr(why.as_ref()) }
}

pub fn panicked(msg: &str) -> Reply {
    Reply { status: "panic", payload: jstr(msg) }
}

/// JSON string literal.
pub fn jstr(s: &str) -> String {
    serde_json::to_string(s).unwrap_or_else(|_| "\"<unprintable>\"".to_string())
}

/// JSON number, or a string of decimal digits above 2^53.
pub fn jnum(x: u64) -> String {
    if x > (1u64 << 53) {
        format!("\"{}\"", x)
    } else {
        x.to_string()
    }
}

pub fn hex_encode(bytes: &[u8]) -> String {
    const DIGITS: &[u8; 16] = b"0123456789abcdef";
    let mut s = String::with_capacity(bytes.len() * 2);
    for b in bytes {
        s.push(DIGITS[(b >> 4) as usize] as char);
        s.push(DIGITS[(b & 15) as usize] as char);
    }
    s
}

pub fn hex_decode(s: &str) -> Result<Vec<u8>, String> {
    fn nibble(c: u8) -> Option<u8> {
        match c {
            b'0'..=b'9' => Some(c - b'0'),
            b'a'..=b'f' => Some(c - b'a' + 10),
            b'A'..=b'F' => Some(c - b'A' + 10),
            _ => None,
        }
    }
    let b = s.as_bytes();
    if b.len() % 2 != 0 {
        return Err(format!("bad hex: odd length {}", b.len()));
    }
    let mut out = Vec::with_capacity(b.len() / 2);
    for pair in b.chunks(2) {
        match (nibble(pair[0]), nibble(pair[1])) {
            (Some(h), Some(l)) => out.push((h << 4) | l),
            _ => return Err("bad hex: non-hex character".to_string()),
        }
    }
    Ok(out)
}

/// Message of a caught panic.
pub fn panic_message(p: Box<dyn Any + Send>) -> String {
    if let Some(s) = p.downcast_ref::<&'static str>() {
        s.to_string()
    } else if let Some(s) = p.downcast_ref::<String>() {
        s.clone()
    } else {
        "<non-string panic payload>".to_string()
    }
}

/// Name of the variant of an error, taken from its `{:?}` rendering by cutting
/// at the first character that cannot be part of an identifier.
pub fn variant_of_debug(dbg: &str) -> &str {
    let end = dbg
        .char_indices()
        .find(|(_, c)| !(c.is_ascii_alphanumeric() || *c == '_'))
        .map(|(i, _)| i)
        .unwrap_or(dbg.len());
    &dbg[..end]
}

/// `{:?}` of an error; used by the generated conversion closures.
pub fn dbg<E: Debug>(e: E) -> String {
    format!("{:?}", e)
}

/// `"variant":"X","detail":"<debug>"` (no braces).
fn variant_fields(dbg: &str) -> String {
    format!("\"variant\":{},\"detail\":{}", jstr(variant_of_debug(dbg)), jstr(dbg))
}

fn err_variant<E: Debug>(e: &E) -> Reply {
    err(format!("{{{}}}", variant_fields(&format!("{:?}", e))))
}

fn err_stage(stage: &str, dbg: &str) -> Reply {
    err(format!("{{\"stage\":{},{}}}", jstr(stage), variant_fields(dbg)))
}

fn to_json<T: Serialize>(v: &T) -> Result<String, Reply> {
    serde_json::to_string(v).map_err(|e| unsupported(format!("cannot serialise value: {}", e)))
}

fn from_json<T: DeserializeOwned>(s: &str) -> Result<T, Reply> {
    serde_json::from_str::<T>(s).map_err(|e| unsupported(e.to_string()))
}

fn from_hex(s: &str) -> Result<Vec<u8>, Reply> {
    hex_decode(s).map_err(unsupported)
}

/// Split `<head>\t<tail>`.
pub fn split_tab(arg: &str) -> (&str, &str) {
    match arg.find('\t') {
        Some(i) => (&arg[..i], &arg[i + 1..]),
        None => (arg, ""),
    }
}

macro_rules! tri {
    ($e:expr) => {
        match $e {
            Ok(v) => v,
            Err(reply) => return reply,
        }
    };
}

/// `{"ok":"<hex>"}` / `{"err":"<Variant>"}` / `{"panic":"<msg>"}`
fn encode_result_json(r: std::thread::Result<Result<Vec<u8>, EncodeError>>) -> String {
    match r {
        Ok(Ok(bytes)) => format!("{{\"ok\":\"{}\"}}", hex_encode(&bytes)),
        Ok(Err(e)) => {
            let d = format!("{:?}", e);
            format!("{{\"err\":{},\"detail\":{}}}", jstr(variant_of_debug(&d)), jstr(&d))
        }
        Err(p) => format!("{{\"panic\":{}}}", jstr(&panic_message(p))),
    }
}

fn encode_to_vec_json<T: Packet>(v: &T) -> String {
    encode_result_json(catch_unwind(AssertUnwindSafe(|| v.encode_to_vec())))
}

// ---------------------------------------------------------------------------
// Codec types (packets, structs, sized custom fields)
// ---------------------------------------------------------------------------

pub trait Codec: Packet + Serialize + DeserializeOwned + Default {}
impl<T: Packet + Serialize + DeserializeOwned + Default> Codec for T {}

pub fn codec<T: Codec>(op: &str, arg: &str) -> Reply {
    match op {
        "decode" => op_decode::<T>(arg, false),
        "alloc_decode" => op_decode::<T>(arg, true),
        "decode_full" => op_decode_full::<T>(arg),
        "decode_mut" => op_decode_mut::<T>(arg),
        "encode" => op_encode::<T>(arg),
        "roundtrip" => op_roundtrip::<T>(arg),
        "recode" => op_recode::<T>(arg),
        "default" => op_default::<T>(),
        "specialize" => unsupported("specialize: type has no children"),
        "try_from_parent" | "to_parent" => unsupported(format!("{}: type has no parent", op)),
        "enum_from" | "enum_sweep" | "enum_default" => {
            unsupported(format!("{}: not an enum type", op))
        }
        _ => unsupported(format!("unknown op {:?}", op)),
    }
}

fn op_decode<T: Codec>(arg: &str, count_allocs: bool) -> Reply {
    let bytes = tri!(from_hex(arg));
    let snap = alloc_reset();
    let result = catch_unwind(AssertUnwindSafe(|| T::decode(&bytes)));
    let extra = if count_allocs { alloc_report(&snap) } else { String::new() };
    match result {
        Err(p) => panicked(&panic_message(p)),
        Ok(Ok((value, rest))) => {
            let json = tri!(to_json(&value));
            ok(format!("{{\"value\":{},\"rest\":\"{}\"{}}}", json, hex_encode(rest), extra))
        }
        Ok(Err(e)) => {
            err(format!("{{{}{}}}", variant_fields(&format!("{:?}", e)), extra))
        }
    }
}

fn op_decode_full<T: Codec>(arg: &str) -> Reply {
    let bytes = tri!(from_hex(arg));
    match T::decode_full(&bytes) {
        Ok(value) => {
            let json = tri!(to_json(&value));
            ok(format!("{{\"value\":{}}}", json))
        }
        Err(e) => err_variant(&e),
    }
}

fn op_decode_mut<T: Codec>(arg: &str) -> Reply {
    let bytes = tri!(from_hex(arg));
    let mut slice: &[u8] = &bytes;
    let result = T::decode_mut(&mut slice);
    let rest = hex_encode(slice);
    match result {
        Ok(value) => {
            let json = tri!(to_json(&value));
            ok(format!("{{\"value\":{},\"rest\":\"{}\"}}", json, rest))
        }
        Err(e) => err(format!("{{{},\"rest\":\"{}\"}}", variant_fields(&format!("{:?}", e)), rest)),
    }
}

const PREFIX: [u8; 4] = [0xde, 0xad, 0xbe, 0xef];

fn op_encode<T: Codec>(arg: &str) -> Reply {
    let v: T = tri!(from_json(arg));
    let vec = encode_to_vec_json(&v);
    let bytes = encode_result_json(catch_unwind(AssertUnwindSafe(|| {
        v.encode_to_bytes().map(|b| b.to_vec())
    })));
    let into_vec = {
        let mut buf: Vec<u8> = PREFIX.to_vec();
        let r = catch_unwind(AssertUnwindSafe(|| v.encode(&mut buf)));
        encode_result_json(r.map(|r| r.map(|()| buf)))
    };
    let into_bytesmut = {
        let mut buf = BytesMut::new();
        buf.extend_from_slice(&PREFIX);
        let r = catch_unwind(AssertUnwindSafe(|| v.encode(&mut buf)));
        encode_result_json(r.map(|r| r.map(|()| buf.to_vec())))
    };
    let len = match catch_unwind(AssertUnwindSafe(|| v.encoded_len())) {
        Ok(n) => jnum(n as u64),
        Err(p) => format!("{{\"panic\":{}}}", jstr(&panic_message(p))),
    };
    ok(format!(
        "{{\"vec\":{},\"bytes\":{},\"into_vec\":{},\"into_bytesmut\":{},\"len\":{}}}",
        vec, bytes, into_vec, into_bytesmut, len
    ))
}

fn op_roundtrip<T: Codec>(arg: &str) -> Reply {
    let v: T = tri!(from_json(arg));
    let bytes = match v.encode_to_vec() {
        Ok(b) => b,
        Err(e) => return err_stage("encode", &format!("{:?}", e)),
    };
    match T::decode_full(&bytes) {
        Ok(back) => {
            let json = tri!(to_json(&back));
            ok(format!("{{\"hex\":\"{}\",\"value\":{}}}", hex_encode(&bytes), json))
        }
        Err(e) => err(format!(
            "{{\"stage\":\"decode\",{},\"hex\":\"{}\"}}",
            variant_fields(&format!("{:?}", e)),
            hex_encode(&bytes)
        )),
    }
}

fn op_recode<T: Codec>(arg: &str) -> Reply {
    let bytes = tri!(from_hex(arg));
    let v = match T::decode_full(&bytes) {
        Ok(v) => v,
        Err(e) => return err_stage("decode", &format!("{:?}", e)),
    };
    let json = tri!(to_json(&v));
    match v.encode_to_vec() {
        Ok(out) => ok(format!("{{\"value\":{},\"hex\":\"{}\"}}", json, hex_encode(&out))),
        Err(e) => err(format!(
            "{{\"stage\":\"encode\",{},\"value\":{}}}",
            variant_fields(&format!("{:?}", e)),
            json
        )),
    }
}

fn op_default<T: Codec>() -> Reply {
    let v = T::default();
    let json = tri!(to_json(&v));
    ok(format!("{{\"value\":{}}}", json))
}

/// `T::decode(hex)` then `.specialize()`. `C` is the generated `<T>Child` enum; its
/// serde representation is externally tagged (`{"<Variant>": {..}}` or `"None"`),
/// which is how the variant name is recovered without per-type code.
pub fn specialize<T: Codec, C: Serialize>(
    arg: &str,
    spec: impl Fn(&T) -> Result<C, DecodeError>,
) -> Reply {
    let bytes = tri!(from_hex(arg));
    let (v, rest) = match T::decode(&bytes) {
        Ok(r) => r,
        Err(e) => return err_stage("decode", &format!("{:?}", e)),
    };
    let child = match spec(&v) {
        Ok(c) => c,
        Err(e) => return err_stage("specialize", &format!("{:?}", e)),
    };
    let value = match serde_json::to_value(&child) {
        Ok(v) => v,
        Err(e) => return unsupported(format!("cannot serialise child: {}", e)),
    };
    match value {
        serde_json::Value::String(ref s) if s == "None" => none(),
        serde_json::Value::Object(map) if map.len() == 1 => {
            let (name, inner) = map.into_iter().next().unwrap();
            ok(format!(
                "{{\"child\":{},\"value\":{},\"rest\":\"{}\"}}",
                jstr(&name),
                inner,
                hex_encode(rest)
            ))
        }
        other => unsupported(format!("unexpected child representation: {}", other)),
    }
}

/// Decode ancestor `A` from hex with `decode`, then `T::try_from(&ancestor)`.
pub fn from_parent<T: Codec, A: Codec>(
    arg: &str,
    conv: impl Fn(&A) -> Result<T, String>,
) -> Reply {
    let bytes = tri!(from_hex(arg));
    let (a, _rest) = match A::decode(&bytes) {
        Ok(r) => r,
        Err(e) => return err_stage("decode", &format!("{:?}", e)),
    };
    match conv(&a) {
        Ok(v) => {
            let json = tri!(to_json(&v));
            ok(format!("{{\"value\":{}}}", json))
        }
        Err(d) => err_stage("convert", &d),
    }
}

/// `A::try_from(&v)` for `v: T` given as JSON, plus the way back.
pub fn to_parent<T: Codec, A: Codec>(
    arg: &str,
    up: impl Fn(&T) -> Result<A, String>,
    down: impl Fn(&A) -> Result<T, String>,
) -> Reply {
    let v: T = tri!(from_json(arg));
    let a = match up(&v) {
        Ok(a) => a,
        Err(d) => return err(format!("{{{}}}", variant_fields(&d))),
    };
    let value = tri!(to_json(&a));
    let hex = encode_to_vec_json(&a);
    let child_hex = encode_to_vec_json(&v);
    let back = match catch_unwind(AssertUnwindSafe(|| down(&a))) {
        Ok(Ok(t)) => tri!(to_json(&t)),
        Ok(Err(d)) => {
            format!("{{\"err\":{},\"detail\":{}}}", jstr(variant_of_debug(&d)), jstr(&d))
        }
        Err(p) => format!("{{\"panic\":{}}}", jstr(&panic_message(p))),
    };
    ok(format!(
        "{{\"value\":{},\"hex\":{},\"child_hex\":{},\"back\":{}}}",
        value, hex, child_hex, back
    ))
}

// ---------------------------------------------------------------------------
// Enum types
// ---------------------------------------------------------------------------

pub trait Backing: Copy + PartialEq + Debug + Into<u64> + TryFrom<u64> {}
impl Backing for u8 {}
impl Backing for u16 {}
impl Backing for u32 {}
impl Backing for u64 {}

pub trait EnumType<B: Backing>:
    Copy + Debug + Default + TryFrom<B, Error = B> + Into<B> + Into<u64>
{
}
impl<B: Backing, E> EnumType<B> for E where
    E: Copy + Debug + Default + TryFrom<B, Error = B> + Into<B> + Into<u64>
{
}

enum EnumOutcome<E> {
    TooWide,
    Ok(E),
    Err(u64),
}

fn enum_try<E: EnumType<B>, B: Backing>(x: u64) -> EnumOutcome<E> {
    match B::try_from(x) {
        Err(_) => EnumOutcome::TooWide,
        Ok(b) => match E::try_from(b) {
            Ok(e) => EnumOutcome::Ok(e),
            Err(v) => EnumOutcome::Err(v.into()),
        },
    }
}

fn enum_back<E: EnumType<B>, B: Backing>(e: E) -> u64 {
    let b: B = <E as Into<B>>::into(e);
    b.into()
}

fn enum_describe<E: EnumType<B>, B: Backing>(e: E) -> String {
    format!(
        "{{\"back\":{},\"debug\":{},\"u64\":{}}}",
        jnum(enum_back::<E, B>(e)),
        jstr(&format!("{:?}", e)),
        jnum(<E as Into<u64>>::into(e))
    )
}

pub fn enum_op<E: EnumType<B>, B: Backing>(op: &str, arg: &str) -> Reply {
    match op {
        "enum_from" => {
            let x: u64 = match arg.trim().parse() {
                Ok(x) => x,
                Err(_) => return unsupported(format!("bad integer {:?}", arg)),
            };
            match enum_try::<E, B>(x) {
                EnumOutcome::TooWide => err("{\"too_wide\":true}".to_string()),
                EnumOutcome::Ok(e) => ok(enum_describe::<E, B>(e)),
                EnumOutcome::Err(v) => err(format!("{{\"value\":{}}}", jnum(v))),
            }
        }
        "enum_sweep" => {
            let (lo_s, hi_s) = split_tab(arg);
            let (lo, hi) = match (lo_s.trim().parse::<u64>(), hi_s.trim().parse::<u64>()) {
                (Ok(lo), Ok(hi)) => (lo, hi),
                _ => return unsupported(format!("bad range {:?}", arg)),
            };
            if hi < lo || hi - lo >= (1 << 20) {
                return unsupported("bad range: need lo <= hi and hi - lo < 2^20");
            }
            let mut runs = String::from("[");
            let mut named = String::from("{");
            let mut current: Option<(u64, u64, &'static str)> = None;
            let mut x = lo;
            loop {
                let class = match enum_try::<E, B>(x) {
                    EnumOutcome::TooWide => "wide",
                    EnumOutcome::Ok(e) => {
                        let d = format!("{:?}", e);
                        if !d.contains('(') {
                            if named.len() > 1 {
                                named.push(',');
                            }
                            named.push_str(&format!("\"{}\":{}", x, jstr(&d)));
                        }
                        if enum_back::<E, B>(e) == x { "ok" } else { "bad" }
                    }
                    EnumOutcome::Err(v) => {
                        if v == x { "err" } else { "errbad" }
                    }
                };
                current = match current {
                    Some((first, count, c)) if c == class => Some((first, count + 1, c)),
                    Some((first, count, c)) => {
                        if runs.len() > 1 {
                            runs.push(',');
                        }
                        runs.push_str(&format!("[{},{},\"{}\"]", jnum(first), count, c));
                        Some((x, 1, class))
                    }
                    None => Some((x, 1, class)),
                };
                if x == hi {
                    break;
                }
                x += 1;
            }
            if let Some((first, count, c)) = current {
                if runs.len() > 1 {
                    runs.push(',');
                }
                runs.push_str(&format!("[{},{},\"{}\"]", jnum(first), count, c));
            }
            runs.push(']');
            named.push('}');
            ok(format!("{{\"runs\":{},\"named\":{}}}", runs, named))
        }
        "enum_default" => ok(enum_describe::<E, B>(E::default())),
        "decode" | "decode_full" | "decode_mut" | "encode" | "roundtrip" | "recode"
        | "specialize" | "try_from_parent" | "to_parent" | "default" | "alloc_decode" => {
            unsupported(format!("{}: not a codec type", op))
        }
        _ => unsupported(format!("unknown op {:?}", op)),
    }
}

// ---------------------------------------------------------------------------
// Main loop
// ---------------------------------------------------------------------------

pub type Dispatch = fn(&str, &str, &str, &str) -> Reply;

/// Pseudo module with diagnostic ops that exercise the failure paths of the line protocol
/// independently of any generated code (extension to PROTOCOL.md; the type field is
/// ignored): `echo <text>`, `panic <msg>`, `abort`, `stack_overflow`, `hang`,
/// `alloc <bytes>` (reserve that many bytes in a `Vec` and touch nothing).
pub const HARNESS_MODULE: &str = "__harness";

#[inline(never)]
fn recurse_forever(depth: u64, sink: &mut [u8; 256]) -> u64 {
    let mut local = [0u8; 256];
    local[(depth % 256) as usize] = sink[((depth + 1) % 256) as usize].wrapping_add(1);
    let r = recurse_forever(depth + 1, &mut local);
    sink[0] = local[1];
    r + local[2] as u64
}

fn harness_op(op: &str, arg: &str) -> Reply {
    match op {
        "echo" => ok(format!("{{\"echo\":{}}}", jstr(arg))),
        "panic" => panic!("{}", arg),
        "abort" => std::process::abort(),
        "stack_overflow" => {
            let mut sink = [0u8; 256];
            let r = recurse_forever(0, &mut sink);
            ok(format!("{{\"unreachable\":{}}}", r))
        }
        "hang" => loop {
            std::thread::sleep(std::time::Duration::from_secs(3600));
        },
        "alloc" => {
            let n: usize = match arg.trim().parse() {
                Ok(n) => n,
                Err(_) => return unsupported(format!("bad byte count {:?}", arg)),
            };
            let snap = alloc_reset();
            let v: Vec<u8> = Vec::with_capacity(n);
            let cap = v.capacity();
            drop(v);
            ok(format!("{{\"capacity\":{}{}}}", cap, alloc_report(&snap)))
        }
        _ => unsupported(format!("unknown {} op {:?}", HARNESS_MODULE, op)),
    }
}

pub fn main_loop(dispatch: Dispatch) {
    std::panic::set_hook(Box::new(|_| {}));
    if let Ok(v) = std::env::var("PDL_HARNESS_ALLOC_MAX_MB") {
        if let Ok(mb) = v.trim().parse::<usize>() {
            let limit = if mb == 0 { usize::MAX } else { mb.saturating_mul(1 << 20) };
            ALLOC_LIMIT.store(limit, Relaxed);
        }
    }
    let stdin = std::io::stdin();
    let mut input = stdin.lock();
    let stdout = std::io::stdout();
    let mut output = stdout.lock();
    let mut raw: Vec<u8> = Vec::new();
    loop {
        raw.clear();
        match input.read_until(b'\n', &mut raw) {
            Ok(0) | Err(_) => break,
            Ok(_) => {}
        }
        while matches!(raw.last(), Some(b'\n') | Some(b'\r')) {
            raw.pop();
        }
        let line = String::from_utf8_lossy(&raw);
        let mut parts = line.splitn(5, '\t');
        let case_id = parts.next().unwrap_or("");
        let module = parts.next();
        let ty = parts.next();
        let op = parts.next();
        let arg = parts.next().unwrap_or("");
        let reply = match (module, ty, op) {
            (Some(HARNESS_MODULE), Some(_), Some(op)) => {
                match catch_unwind(AssertUnwindSafe(|| harness_op(op, arg))) {
                    Ok(r) => r,
                    Err(p) => panicked(&panic_message(p)),
                }
            }
            (Some(module), Some(ty), Some(op)) => {
                match catch_unwind(AssertUnwindSafe(|| dispatch(module, ty, op, arg))) {
                    Ok(r) => r,
                    Err(p) => panicked(&panic_message(p)),
                }
            }
            _ => unsupported("malformed request: expected <case_id>\\t<module>\\t<type>\\t<op>\\t<arg>"),
        };
        let mut out_line: Vec<u8> =
            Vec::with_capacity(case_id.len() + reply.status.len() + reply.payload.len() + 3);
        out_line.extend_from_slice(case_id.as_bytes());
        out_line.push(b'\t');
        out_line.extend_from_slice(reply.status.as_bytes());
        out_line.push(b'\t');
        // A payload never contains a newline (compact JSON); make sure of it anyway.
        out_line.extend(reply.payload.bytes().map(|b| if b == b'\n' || b == b'\r' { b' ' } else { b }));
        out_line.push(b'\n');
        if output.write_all(&out_line).and_then(|_| output.flush()).is_err() {
            break;
        }
    }
}
