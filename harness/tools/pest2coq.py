#!/usr/bin/env python3
"""pest grammar -> Coq value.

    pest2coq.py /repo/pdl-compiler/src/parser.rs [/verif/coq/theories/Front/Grammar_gen.v]

Extracts the `#[grammar_inline = r#"..."#]` literal from a Rust source file,
parses it with pest's meta-grammar (pest_meta 2.x `grammar.pest`) and writes a
Coq file defining

    Definition pdl_grammar : grammar := [ mkRule "name" kind body; ... ].
    Definition pdl_rule_names : list string := [ ... ].

in the datatype of Front/Peg.v.  Nothing is interpreted here: every pest
construct is mapped one-to-one (`~` PSeq, `|` PChoice, `*` PStar, `+` PPlus,
`?` POpt, `!` PNot, `&` PAnd, string PStr (UTF-8 bytes), range PRange (code
points), ANY / SOI / EOI, identifiers PRef).  Sequences and choices are
right-nested (what pest's optimizer produces); they are associative in the
interpreter anyway.  Implicit whitespace is NOT inserted here: the interpreter
does it, dynamically, as pest does.

The output is a deterministic function of the grammar text.  Constructs this
translator (or Peg.v) does not model make it exit with status 2 and a message:
case-insensitive strings, PUSH/PEEK/POP/DROP and the stack, bounded repetitions
`{n}` `{n,}` `{,m}` `{n,m}`, node tags, pest built-ins other than ANY/SOI/EOI
(ASCII_*, NEWLINE, unicode classes), duplicate or undefined rules.
"""
import re
import sys


class Unsupported(Exception):
    pass


def extract_grammar(rust_source: str) -> str:
    m = re.findall(r'#\[grammar_inline\s*=\s*r(#*)"(.*?)"\1\s*\]', rust_source, re.S)
    if len(m) != 1:
        raise Unsupported("expected exactly one #[grammar_inline = r#\"...\"#] literal, found %d" % len(m))
    return m[0][1]


# ----------------------------------------------------------------------------- lexer

TOKEN = re.compile(r"""
    (?P<ws>[ \t\r\n]+)
  | (?P<doc>//[/!][^\n]*)
  | (?P<lcomment>//[^\n]*)
  | (?P<bcomment>/\*)
  | (?P<ident>[A-Za-z_][A-Za-z_0-9]*)
  | (?P<string>"(?:[^"\\]|\\.)*")
  | (?P<char>'(?:[^'\\]|\\(?:x[0-9a-fA-F]{2}|u\{[0-9a-fA-F]{2,6}\}|.))')
  | (?P<range>\.\.)
  | (?P<number>[0-9]+)
  | (?P<punct>[=_@$!{}()\[\]~|&?*+,^\#-])
""", re.X | re.S)


def lex(text):
    toks = []
    i = 0
    n = len(text)
    while i < n:
        m = TOKEN.match(text, i)
        if not m:
            raise Unsupported("cannot tokenize grammar at offset %d: %r" % (i, text[i:i + 30]))
        kind = m.lastgroup
        if kind == "bcomment":
            # pest block comments nest
            depth, j = 1, m.end()
            while depth:
                a, b = text.find("/*", j), text.find("*/", j)
                if b < 0:
                    raise Unsupported("unterminated block comment in grammar")
                if 0 <= a < b:
                    depth, j = depth + 1, a + 2
                else:
                    depth, j = depth - 1, b + 2
            i = j
            continue
        if kind not in ("ws", "lcomment", "doc"):
            toks.append((kind, m.group(), i))
        i = m.end()
    toks.append(("eof", "", n))
    return toks


def unescape(body, where):
    """pest_meta::parser::unescape: returns the list of code points."""
    out = []
    i = 0
    while i < len(body):
        c = body[i]
        if c != "\\":
            out.append(ord(c))
            i += 1
            continue
        if i + 1 >= len(body):
            raise Unsupported("dangling backslash in %s" % where)
        e = body[i + 1]
        simple = {'"': '"', "\\": "\\", "r": "\r", "n": "\n", "t": "\t", "0": "\0", "'": "'"}
        if e in simple:
            out.append(ord(simple[e]))
            i += 2
        elif e == "x":
            h = body[i + 2:i + 4]
            if not re.fullmatch(r"[0-9a-fA-F]{2}", h):
                raise Unsupported("bad \\x escape in %s" % where)
            out.append(int(h, 16))      # char::from(u8): a code point, not a byte
            i += 4
        elif e == "u":
            m = re.match(r"\{([0-9a-fA-F]{2,6})\}", body[i + 2:])
            if not m:
                raise Unsupported("bad \\u escape in %s" % where)
            cp = int(m.group(1), 16)
            if cp > 0x10FFFF or 0xD800 <= cp <= 0xDFFF:
                raise Unsupported("\\u escape is not a scalar value in %s" % where)
            out.append(cp)
            i += 2 + m.end()
        else:
            raise Unsupported("unknown escape \\%s in %s" % (e, where))
    return out


# ----------------------------------------------------------------------------- parser
# expression = { choice_operator? ~ term ~ (infix_operator ~ term)* }
# term = { node_tag? ~ prefix_operator* ~ node ~ postfix_operator* }
# `~` binds tighter than `|`; prefix operators apply to (node postfix*).

BUILTIN_OK = {"ANY": ("any",), "SOI": ("soi",), "EOI": ("eoi",)}


class Parser:
    def __init__(self, toks):
        self.toks = toks
        self.i = 0

    def peek(self, k=0):
        return self.toks[self.i + k]

    def next(self):
        t = self.toks[self.i]
        self.i += 1
        return t

    def expect(self, text):
        t = self.next()
        if t[1] != text:
            raise Unsupported("grammar syntax: expected %r, got %r at offset %d" % (text, t[1], t[2]))
        return t

    def rules(self):
        out = []
        while self.peek()[0] != "eof":
            out.append(self.rule())
        return out

    def rule(self):
        t = self.next()
        # a lone `_` lexes as punct; identifiers starting with `_` lex as ident
        if t[0] != "ident":
            raise Unsupported("grammar syntax: expected rule name, got %r at offset %d" % (t[1], t[2]))
        name = t[1]
        self.expect("=")
        kind = "RNormal"
        t = self.peek()
        mods = {"_": "RSilent", "@": "RAtomic", "$": "RCompound", "!": "RNonAtomic"}
        if t[1] in mods and t[0] in ("punct", "ident"):
            kind = mods[t[1]]
            self.next()
        self.expect("{")
        e = self.expression()
        self.expect("}")
        return name, kind, e

    def expression(self):
        if self.peek()[1] == "|" and self.peek()[0] == "punct":
            self.next()                      # leading choice operator
        alts = [self.sequence()]
        while self.peek()[0] == "punct" and self.peek()[1] == "|":
            self.next()
            alts.append(self.sequence())
        return nest("choice", alts)

    def sequence(self):
        items = [self.term()]
        while self.peek()[0] == "punct" and self.peek()[1] == "~":
            self.next()
            items.append(self.term())
        return nest("seq", items)

    def term(self):
        t = self.peek()
        if t[0] == "punct" and t[1] == "#":
            raise Unsupported("node tags (#name = ...) are not modelled (offset %d)" % t[2])
        prefixes = []
        while self.peek()[0] == "punct" and self.peek()[1] in ("!", "&"):
            prefixes.append(self.next()[1])
        e = self.node()
        while True:
            t = self.peek()
            if t[0] == "punct" and t[1] in ("?", "*", "+"):
                self.next()
                e = ({"?": "opt", "*": "star", "+": "plus"}[t[1]], e)
            elif t[0] == "punct" and t[1] == "{":
                # a `{` after a node can only be a bounded repetition: the rule body's
                # closing brace is `}`, and a new rule starts with an identifier.
                raise Unsupported("bounded repetition {n,m} is not modelled (offset %d)" % t[2])
            else:
                break
        for p in reversed(prefixes):
            e = ("not" if p == "!" else "and", e)
        return e

    def node(self):
        t = self.next()
        if t[0] == "punct" and t[1] == "(":
            e = self.expression()
            self.expect(")")
            return e
        if t[0] == "punct" and t[1] == "^":
            raise Unsupported("case-insensitive strings (^\"..\") are not modelled (offset %d)" % t[2])
        if t[0] == "string":
            return ("str", unescape(t[1][1:-1], "string at offset %d" % t[2]))
        if t[0] == "char":
            lo = unescape(t[1][1:-1], "character at offset %d" % t[2])
            self.expect("..")
            hi_t = self.next()
            if hi_t[0] != "char":
                raise Unsupported("grammar syntax: expected character after '..' at offset %d" % hi_t[2])
            hi = unescape(hi_t[1][1:-1], "character at offset %d" % hi_t[2])
            if len(lo) != 1 or len(hi) != 1:
                raise Unsupported("range bounds must be single characters (offset %d)" % t[2])
            return ("range", lo[0], hi[0])
        if t[0] == "ident":
            if t[1] in ("PUSH", "PUSH_LITERAL", "PEEK", "PEEK_ALL", "POP", "POP_ALL", "DROP"):
                raise Unsupported("stack operation %s is not modelled (offset %d)" % (t[1], t[2]))
            return ("ref", t[1])
        raise Unsupported("grammar syntax: unexpected %r at offset %d" % (t[1], t[2]))


def nest(op, items):
    e = items[-1]
    for x in reversed(items[:-1]):
        e = (op, x, e)
    return e


# ----------------------------------------------------------------------------- checks


def refs(e, out):
    if e[0] == "ref":
        out.append(e[1])
    for x in e[1:]:
        if isinstance(x, tuple):
            refs(x, out)
    return out


def resolve(rules):
    names = [r[0] for r in rules]
    dup = sorted({n for n in names if names.count(n) > 1})
    if dup:
        raise Unsupported("duplicate rule(s): %s" % ", ".join(dup))
    for n in names:
        if n in BUILTIN_OK or n in ("PUSH", "POP", "PEEK", "DROP", "PEEK_ALL", "POP_ALL"):
            raise Unsupported("rule %s redefines a pest built-in" % n)
    defined = set(names)
    for name, _, e in rules:
        for r in refs(e, []):
            if r not in defined and r not in BUILTIN_OK:
                raise Unsupported("rule %s refers to %s, which is neither defined nor a modelled built-in "
                                  "(only ANY, SOI, EOI are)" % (name, r))


# ----------------------------------------------------------------------------- Coq printer


def utf8(cps):
    return "".join(chr(c) for c in cps).encode("utf-8")


def coq_string(bs: bytes) -> str:
    """a Coq term of type string for the byte string"""
    if all(0x20 <= b < 0x7f for b in bs):
        return '"' + bs.decode("ascii").replace('"', '""') + '"'
    return "(str_of_codes [" + "; ".join(str(b) for b in bs) + "])"


def coq_exp(e, defined) -> str:
    k = e[0]
    if k == "str":
        return "PStr " + coq_string(utf8(e[1]))
    if k == "range":
        return "PRange %d %d" % (e[1], e[2])
    if k == "ref":
        if e[1] not in defined and e[1] in BUILTIN_OK:
            return {"ANY": "PAny", "SOI": "PSoi", "EOI": "PEoi"}[e[1]]
        return 'PRef "%s"' % e[1]
    if k in ("seq", "choice"):
        c = "PSeq" if k == "seq" else "PChoice"
        return "%s (%s) (%s)" % (c, coq_exp(e[1], defined), coq_exp(e[2], defined))
    c = {"opt": "POpt", "star": "PStar", "plus": "PPlus", "not": "PNot", "and": "PAnd"}[k]
    return "%s (%s)" % (c, coq_exp(e[1], defined))


def to_coq(rules, source_name, prefix="pdl") -> str:
    defined = {r[0] for r in rules}
    lines = [
        "(** GENERATED by harness/tools/pest2coq.py from the grammar_inline literal of",
        "    %s -- do not edit. *)" % source_name,
        "From Coq Require Import NArith List String.",
        "From PDL Require Import Front.Peg.",
        "Import ListNotations.",
        "Open Scope string_scope.",
        "Open Scope N_scope.",
        "",
        "Definition %s_grammar : grammar := [" % prefix,
    ]
    body = []
    for name, kind, e in rules:
        body.append('  mkRule "%s" %s\n    (%s)' % (name, kind, coq_exp(e, defined)))
    lines.append(";\n".join(body))
    lines.append("].")
    lines.append("")
    lines.append("Definition %s_rule_names : list string := [" % prefix)
    lines.append("  " + "; ".join('"%s"' % r[0] for r in rules))
    lines.append("].")
    lines.append("")
    return "\n".join(lines)


def translate_grammar(text: str, source_name: str, prefix="pdl") -> str:
    """pest grammar text -> Coq source defining <prefix>_grammar and <prefix>_rule_names"""
    rules = Parser(lex(text)).rules()
    if not rules:
        raise Unsupported("the grammar has no rules")
    resolve(rules)
    return to_coq(rules, source_name, prefix)


def translate(rust_source: str, source_name: str) -> str:
    return translate_grammar(extract_grammar(rust_source), source_name)


def main(argv):
    if len(argv) not in (2, 3):
        sys.stderr.write(__doc__)
        return 2
    src = argv[1]
    try:
        with open(src, encoding="utf-8") as f:
            out = translate(f.read(), src)
    except Unsupported as e:
        sys.stderr.write("pest2coq: %s\n" % e)
        return 2
    if len(argv) == 3:
        try:
            with open(argv[2], encoding="utf-8") as f:
                if f.read() == out:
                    return 0            # unchanged: keep the mtime, make does nothing
        except OSError:
            pass
        with open(argv[2], "w", encoding="utf-8") as f:
            f.write(out)
    else:
        sys.stdout.write(out)
    return 0


if __name__ == "__main__":
    sys.exit(main(sys.argv))
