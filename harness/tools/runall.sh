#!/bin/bash
# runall.sh <outdir> [checks...]: run quick checks on the current tree in parallel, summarise
OUT=$1; shift
CHECKS=${*:-C01 C02 C03 C04 C05 C06 C07 C08 C09 C10 C11 C12 C13 C14 C15 C16 C17 C18 C19}
rm -rf "$OUT"; mkdir -p "$OUT"
export VERIF_SEED=${VERIF_SEED:-1}
printf '%s\n' $CHECKS | xargs -P ${JOBS:-6} -I{} sh -c '/verif/bin/vp-check {} --tier '${TIER:-quick}' > '"$OUT"'/{}.log 2>&1; echo "{} exit=$?" >> '"$OUT"'/summary.txt'
sort "$OUT/summary.txt" | tr '\n' ' '; echo
grep -h "^VIOLATION\|^INFRA" "$OUT"/C*.log | sort | uniq -c | head -40
