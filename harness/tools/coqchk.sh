#!/bin/sh
# independent re-check of the compiled development; prints the axioms it relies on
cd "$(dirname "$0")/../../coq" || exit 2
exec coqchk -o -silent -Q theories PDL $(for i in 01 02 03 04 05 06 07 08 09 10 11 12 13 14 15 16 17 18 19; do echo PDL.Props.C$i; done)
