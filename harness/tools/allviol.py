#!/usr/bin/env python3
"""allviol.py <outdir>: (check, kind, type) table from the dumped violation lists"""
import json, glob, sys, collections, os
for f in sorted(glob.glob(sys.argv[1] + "/*.violations.json")):
    vs = json.load(open(f))
    c = collections.Counter((v.get("kind"), v.get("type") or v.get("name") or v.get("rule") or "") for v in vs)
    print("==", os.path.basename(f).split(".")[0], len(vs))
    for (k, t), n in sorted(c.items()):
        ex = next(v for v in vs if v.get("kind") == k and (v.get("type") or v.get("name") or v.get("rule") or "") == t)
        pdl = (ex.get("pdl") or ex.get("text") or "").replace("\n", " ")
        print(f"   {n:3d} {k} {t} | {pdl[-150:]} | {json.dumps(ex.get('case'))[:110]} | {json.dumps(ex.get('observed'))[:140]}")
