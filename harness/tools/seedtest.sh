#!/bin/bash
# seedtest.sh <patch.diff> <outdir> [checks...]: apply a seeded change to /repo, run the
# registered quick checks against it, undo it straight afterwards.  Never leaves /repo dirty.
set -u
PATCH=$(readlink -f "$1"); OUT=$2; shift 2
CHECKS=${*:-C01 C02 C03 C04 C05 C06 C07 C08 C09 C10 C11 C12 C13 C14 C15 C16 C17 C18 C19}
mkdir -p "$OUT"
if [ -n "$(git -C /repo status --porcelain)" ]; then echo "/repo is not clean"; exit 2; fi
git -C /repo apply "$PATCH" || exit 2
trap 'git -C /repo checkout -- . ; git -C /repo clean -fdq; git -C /verif checkout -- evidence' EXIT
export VERIF_SEED=${VERIF_SEED:-1}
export VERIF_DUMP_VIOLATIONS="$OUT"
printf '%s\n' $CHECKS | xargs -P ${JOBS:-5} -I{} sh -c '/verif/bin/vp-check {} --tier quick > '"$OUT"'/{}.log 2>&1; echo "{} exit=$?" >> '"$OUT"'/summary.txt'
sort "$OUT/summary.txt"
grep -h "^VIOLATION\|^INFRA" "$OUT"/C*.log | sort | uniq -c | head -40
