#!/usr/bin/env python3
"""showviol.py <logdir> [checks...]: one line per replay named in the logs"""
import json, sys, re, glob, os
d = sys.argv[1]
checks = sys.argv[2:] or sorted(os.path.basename(p)[:-4] for p in glob.glob(d + "/C*.log"))
for c in checks:
    txt = open(f"{d}/{c}.log").read()
    reps = sorted(set(re.findall(r"replay=(\S+)", txt)))
    other = [l for l in txt.splitlines() if not l.startswith(("[vp]", "VIOLATION", "KNOWN-FINDING"))]
    if reps or other:
        print("==", c, *other[:6], sep="\n   " if other else " ")
    for r in reps:
        try:
            j = json.load(open(r))
        except Exception as e:
            print("  ?", r, e); continue
        pdl = (j.get("pdl") or j.get("text") or "").replace("\n", " ")
        print("  -", j.get("kind"), j.get("lang", ""), j.get("type", ""), "|", pdl[-220:], "|", json.dumps(j.get("case"))[:200], "|", json.dumps(j.get("observed"))[:260], "|", json.dumps(j.get("expected"))[:160])
