#!/usr/bin/env python3
"""Self-test of the PEG interpreter (coq/theories/Front/Peg.v) and of the translator
(pest2coq.py) on grammars OTHER than pdl's: each grammar below is compiled by the
real pest_derive (the version locked by /repo/Cargo.lock) into a small probe binary
and translated into a Coq grammar; both parse the same random inputs and must give
the same verdict and the same tree of pairs (rule, start, end, children).

    python3 harness/tools/pest_selftest.py [--seed N] [--n INPUTS_PER_GRAMMAR]

The grammars exercise what pdl's grammar does not: `+` in non-atomic rules (the
skip between `e` and `e*` is kept), `&`, `!{}` rules, `${}` below `@{}`, pairs of
silent rules, normal WHITESPACE / silent COMMENT, grammars with only one (or none)
of WHITESPACE / COMMENT, EOI below an atomic rule, non-ASCII literals and ranges.
Scratch files live under /verif/.cache/pest-probe.  Exit status 1 on a disagreement.
"""
import argparse
import json
import os
import pathlib
import random
import re
import subprocess
import sys

HERE = pathlib.Path(__file__).resolve().parent
sys.path.insert(0, str(HERE))
import pest2coq  # noqa: E402

ROOT = HERE.parents[1]
WORK = ROOT / ".cache" / "pest-probe"
TARGET = ROOT / ".cache" / "target-drv"

GRAMMARS = [
    # 0: + and * in normal rules, trailing skip
    ('''
WHITESPACE = _{ " " }
a = { "a" }
x = { a+ }
y = { a* }
z = { a? ~ "c"? }
top = { SOI ~ (x ~ "b" | y ~ "c" ~ z | "d" ~ x ~ y)* ~ EOI }
''', "abcd "),
    # 1: atomic / compound / non-atomic nesting, comments, lookaheads
    ('''
WHITESPACE = _{ " " | "\\n" }
COMMENT = { "#" ~ (!"\\n" ~ ANY)* }
d = { '0'..'9' }
n = @{ d+ }
c = ${ d ~ ("." ~ d)* }
na = !{ d ~ d+ }
in_atomic = @{ "<" ~ na ~ c ~ ">" }
in_comp = ${ "[" ~ n ~ c ~ na ~ "]" }
sil = _{ n ~ "," | c }
look = { "(" ~ &d ~ n ~ !("." ~ n) ~ ")" }
top = { SOI ~ (in_atomic | in_comp | sil | look)* ~ EOI }
''', "0123.,<>[]() #\n"),
    # 2: only WHITESPACE, and it is a NORMAL rule (gives pairs)
    ('''
WHITESPACE = { " " | "\\t" }
w = { 'a'..'c'+ }
s = @{ "\\"" ~ (!"\\"" ~ ANY)* ~ "\\"" }
top = { SOI ~ (w | s)+ ~ EOI }
''', "abc \t\"d"),
    # 3: only COMMENT, silent
    ('''
COMMENT = _{ "/*" ~ (!"*/" ~ ANY)* ~ "*/" }
w = { 'a'..'c' }
top = { SOI ~ w* ~ ";" ~ w+ ~ EOI }
''', "abc;/* "),
    # 4: neither; EOI below an atomic rule; nested choices
    ('''
w = { "a" | "ab" | "b" }
e = @{ w ~ w ~ EOI }
f = ${ w ~ EOI }
top = { e | f | w ~ w ~ w ~ EOI }
''', "ab"),
    # 5: non-ASCII literals and ranges, ANY over multi-byte characters
    ('''
WHITESPACE = _{ " " | "\\u{3000}" }
cyr = { 'а'..'я'+ }
lit = { "é→" ~ ANY }
q = @{ "«" ~ (!"»" ~ ANY)* ~ "»" }
top = { SOI ~ (cyr | lit | q)* ~ EOI }
''', "абя é→x«»\u3000𝔘"),
    # 6: atomic COMMENT / atomic WHITESPACE, compound keyword followed by whitespace
    ('''
WHITESPACE = @{ " " | "\\n" }
COMMENT = @{ "//" ~ (!"\\n" ~ ANY)* }
kw = ${ ("let" | "var") ~ WHITESPACE }
id = @{ 'a'..'z' ~ ('a'..'z' | '0'..'9')* }
stmt = { kw ~ id ~ ("=" ~ id)? ~ ";" }
top = { SOI ~ stmt* ~ EOI }
''', "letvar x1=; \n/"),
]


def rust_main(grammars):
    mods, arms = [], []
    for k, (g, _) in enumerate(grammars):
        mods.append('mod g%d {\n    #[derive(pest_derive::Parser)]\n    #[grammar_inline = r####"%s"####]\n    pub struct P;\n}\n' % (k, g))
        arms.append('            "%d" => run::<g%d::P, g%d::Rule>(g%d::Rule::top, &text),' % (k, k, k, k))
    return '''use std::fmt::Write as _;
use std::io::{BufRead, Write};
use pest::iterators::Pair;
use pest::{Parser, RuleType};

%s
fn dump<R: RuleType>(p: Pair<'_, R>, out: &mut String) {
    let span = p.as_span();
    write!(out, "({:?} {} {}", p.as_rule(), span.start(), span.end()).unwrap();
    for c in p.into_inner() {
        out.push(' ');
        dump(c, out);
    }
    out.push(')');
}

fn run<P: Parser<R>, R: RuleType>(rule: R, text: &str) -> String {
    match P::parse(rule, text) {
        Ok(pairs) => {
            let mut out = String::from("ok");
            for p in pairs {
                out.push(' ');
                dump(p, &mut out);
            }
            out
        }
        Err(_) => "err".to_owned(),
    }
}

fn main() {
    let stdin = std::io::stdin();
    let stdout = std::io::stdout();
    let mut out = stdout.lock();
    for line in stdin.lock().lines() {
        let line = line.unwrap();
        let (g, t) = line.split_once('\\t').unwrap();
        let text: String = serde_json::from_str(t).unwrap();
        let r = match g {
%s
            _ => "nogrammar".to_owned(),
        };
        writeln!(out, "{}", r).unwrap();
    }
}
''' % ("\n".join(mods), "\n".join(arms))


CARGO = '''[package]
name = "pest-probe"
version = "0.0.0"
edition = "2021"
publish = false

[dependencies]
pest = "2"
pest_derive = "2"
serde_json = "1"

[profile.dev]
opt-level = 1
debug = false

[workspace]
'''


def write_if_changed(path, text):
    path.parent.mkdir(parents=True, exist_ok=True)
    if not path.exists() or path.read_text() != text:
        path.write_text(text)


def build_probe():
    write_if_changed(WORK / "Cargo.toml", CARGO)
    write_if_changed(WORK / ".cargo" / "config.toml", "[net]\noffline = true\n")
    write_if_changed(WORK / "src" / "main.rs", rust_main(GRAMMARS))
    lock = WORK / "Cargo.lock"
    if not lock.exists():
        lock.write_bytes(pathlib.Path("/repo/Cargo.lock").read_bytes())
    env = dict(os.environ, CARGO_TARGET_DIR=str(TARGET), CARGO_NET_OFFLINE="true", RUSTFLAGS="-Awarnings",
               CARGO_TERM_COLOR="never")
    p = subprocess.run(["cargo", "build", "--offline"], cwd=WORK, env=env, capture_output=True, text=True)
    if p.returncode != 0:
        raise RuntimeError("cargo build of the pest probe failed:\n" + p.stderr[-3000:])
    return TARGET / "debug" / "pest-probe"


def coq_string(s):
    return '"' + s.replace('"', '""') + '"'


def run_coq(k, grammar, inputs, chunk=60):
    """-> list of result strings, one per input"""
    src = pest2coq.translate_grammar(grammar, "selftest grammar %d" % k, prefix="g")
    src = src.replace("From PDL Require Import Front.Peg.", "From PDL Require Import Front.Peg Lang.Sexp.")
    v = WORK / ("G%d.v" % k)
    parts = [src, """
From Coq Require Import Ascii.
From PDL Require Import Front.ParseOracle.
Definition nl : string := String "010"%char "".
Definition run (inputs : list string) : string :=
  Lang.Sexp.concat_sep (nl ++ "@@" ++ nl)
    (map (fun s => show_parse_result (parse g_grammar "top" (default_fuel s) s)) inputs).
"""]
    # coqc's string printer is not tail recursive: keep each printed string short
    for c in range(0, len(inputs), chunk):
        parts.append("Eval vm_compute in run [\n%s\n]." % ";\n".join("  " + coq_string(s) for s in inputs[c:c + chunk]))
    v.write_text("\n".join(parts), encoding="utf-8")
    p = subprocess.run(["coqc", "-Q", str(ROOT / "coq" / "theories"), "PDL", str(v)], cwd=WORK,
                       capture_output=True)
    if p.returncode != 0:
        raise RuntimeError("coqc failed on %s:\n%s" % (v, (p.stdout + p.stderr).decode(errors="replace")[-3000:]))
    text = p.stdout.decode("utf-8", errors="replace")
    out = []
    for m in re.finditer(r'= "(.*?)"\s*: string', text, re.S):
        res = m.group(1).replace('""', '"')
        out.extend(r.strip() for r in res.split("\n@@\n"))
    return out


def run_pest(binary, k, inputs):
    inp = "".join("%d\t%s\n" % (k, json.dumps(s)) for s in inputs)
    p = subprocess.run([str(binary)], input=inp.encode("utf-8"), capture_output=True)
    if p.returncode != 0:
        raise RuntimeError("probe crashed: " + p.stderr.decode(errors="replace")[-2000:])
    return p.stdout.decode("utf-8").split("\n")[:-1]


def gen_inputs(rng, alphabet, n, seeds=()):
    out = [""]
    seen = {""}
    while len(out) < n:
        if seeds and rng.random() < 0.6:
            # concatenate known-good fragments, then maybe damage one character
            s = rng.choice(["", " "]).join(rng.choice(seeds) for _ in range(rng.randint(1, 3)))
            if s and rng.random() < 0.4:
                i = rng.randrange(len(s))
                s = s[:i] + rng.choice(["", rng.choice(alphabet)]) + s[i + rng.randint(0, 1):]
        else:
            s = "".join(rng.choice(alphabet) for _ in range(rng.randint(1, 12)))
        if s not in seen:
            seen.add(s)
            out.append(s)
    return out


# inputs that are known to matter for each grammar (accepted ones, mostly)
SEEDS = {
    0: ["ab", "a a b", "a  a  b", "a b", "c", "a c", "aa c a c", "d a a", "d a  a  ", "da a a", " a b ", "a ab", "c a", "cc"],
    1: ["1,", "1.2", "12 , 3", "<12 3>", "<123.4>", "[1 2.3 45]", "[12.345]", "[1245]", "(1)", "( 12 )", "(1.2)", "(1 .2)",
        "1,#c\n2", "1 #x\n, 2", "<12#3>", "[1#2]", "1.2.3", " 1 , 2.3 (4) "],
    2: ["a b", "abc  cab", "\"d c\"", "a \"b\"\tc", " a", "a "],
    3: ["a;b", "a/* x */b;c", "ab;/**/a/* */b", ";a", "a;", "/**/;a"],
    4: ["ab", "aab", "abb", "a", "b", "aba", "ba", "abab"],
    5: ["абя", "аб я", "é→x", "é→𝔘", "«аб»", "« é »абя", "\u3000а\u3000", "é→ x"],
    6: ["let x;", "var x1=y;", "letx;", "let\nx ; var y = z ;", "let//c\nx;", "let //c\nx;", "let x//\n;", "let  x;"],
}


def main():
    ap = argparse.ArgumentParser()
    ap.add_argument("--seed", type=int, default=1)
    ap.add_argument("--n", type=int, default=400)
    a = ap.parse_args()
    rng = random.Random(a.seed)
    binary = build_probe()
    bad = 0
    for k, (g, alphabet) in enumerate(GRAMMARS):
        chars = list(alphabet)
        inputs = SEEDS.get(k, []) + gen_inputs(rng, chars, a.n, SEEDS.get(k, []))
        inputs = list(dict.fromkeys(inputs))
        pest = run_pest(binary, k, inputs)
        coq = run_coq(k, g, inputs)
        if len(pest) != len(inputs) or len(coq) != len(inputs):
            print("grammar %d: reply counts differ: %d inputs, pest %d, coq %d" % (k, len(inputs), len(pest), len(coq)))
            bad += 1
            continue
        ok = sum(1 for r in pest if r.startswith("ok"))
        dis = [(s, p, c) for s, p, c in zip(inputs, pest, coq) if p != c]
        print("grammar %d: %d inputs, %d accepted by pest, %d disagreements" % (k, len(inputs), ok, len(dis)))
        for s, p, c in dis[:8]:
            print("   input %r\n     pest %s\n     coq  %s" % (s, p, c))
        bad += len(dis)
    return 1 if bad else 0


if __name__ == "__main__":
    sys.exit(main())
