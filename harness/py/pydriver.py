"""Generic line-protocol driver for pdlc's Python backend (PROTOCOL.md section 3).

Started through the launcher written by harness/lib/py_harness.py::build, which puts
the directory with the generated modules on sys.path and passes the schema file
(digest of the JSON AST of every module, see py_harness.module_schema).

The driver is reflective: objects returned by the generated parsers are converted to
the Rust-shaped value JSON by walking the instance (dataclass / IntEnum / bytes /
list), the schema only selects the key set (fields not fixed by constraints, plus
`payload` when the declaration itself has a payload/body).  Objects are built with
the generated constructors (keyword arguments), enums through `Enum.from_int`.
"""

import dataclasses
import enum
import importlib
import json
import os
import sys

BIG = 1 << 53


class Unsupported(Exception):
    """The request cannot be expressed for this backend (harness-side problem)."""


class GenError(Exception):
    """An exception raised by generated code."""

    def __init__(self, stage, exc):
        super().__init__(stage)
        self.stage = stage
        self.exc = exc


def _gen(stage, fn, *args, **kwargs):
    try:
        return fn(*args, **kwargs)
    except Unsupported:
        raise
    except GenError:
        raise
    except (KeyboardInterrupt, SystemExit):
        raise
    except BaseException as e:  # noqa: BLE001 - everything the generated code raises
        raise GenError(stage, e)


def _big(n):
    return str(n) if isinstance(n, int) and not isinstance(n, bool) and abs(n) > BIG else n


class Module:
    def __init__(self, name, schema):
        self.name = name
        self.schema = schema
        self.types = schema["types"]
        self.enums = schema["enums"]
        self.py = importlib.import_module(name)
        self.decode_error = getattr(self.py, "DecodeError", None)

    # ---------------------------------------------------------------- values
    def to_json(self, v, depth=0):
        if depth > 200:
            raise Unsupported("value nesting too deep")
        if v is None:
            return None
        if isinstance(v, bool):
            return int(v)
        if isinstance(v, int):
            return int(v)
        if isinstance(v, (bytes, bytearray)):
            return list(v)
        if isinstance(v, (list, tuple)):
            return [self.to_json(x, depth + 1) for x in v]
        if dataclasses.is_dataclass(v) and not isinstance(v, type):
            t = self.types.get(type(v).__name__)
            if t is not None:
                out = {}
                for k in t["value_keys"]:
                    if not hasattr(v, k):
                        raise Unsupported("object of class %s has no attribute %s" % (type(v).__name__, k))
                    out[k] = self.to_json(getattr(v, k), depth + 1)
                return out
            if hasattr(v, "value"):
                return self.to_json(v.value, depth + 1)
            return {f.name: self.to_json(getattr(v, f.name), depth + 1) for f in dataclasses.fields(v)}
        if hasattr(v, "value"):
            return self.to_json(v.value, depth + 1)
        raise Unsupported("cannot convert value of class %s" % type(v).__name__)

    def _int(self, v, what):
        if isinstance(v, bool) or not isinstance(v, int):
            raise Unsupported("%s: expected an integer, got %s" % (what, json.dumps(v)[:40]))
        return v

    def _elem(self, kind, type_id, v, what):
        if kind == "scalar" or kind == "checksum":
            return self._int(v, what)
        if kind == "enum":
            self._int(v, what)
            return _gen("build", getattr(self.py, type_id).from_int, v)
        if kind == "struct":
            return self.build(type_id, v)
        if kind == "custom":
            self._int(v, what)
            return _gen("build", getattr(self.py, type_id), v)
        raise Unsupported("%s: unsupported field kind %s" % (what, kind))

    def _field(self, f, v):
        what = f["id"]
        if v is None:
            if f["optional"]:
                return None
            raise Unsupported("%s: null for a non optional field" % what)
        if f["kind"] == "array":
            if not isinstance(v, list):
                raise Unsupported("%s: expected a list" % what)
            e = f["elem"]
            items = [self._elem(e["kind"], e["type_id"], x, what) for x in v]
            if e["kind"] == "scalar" and e["width"] == 8 and all(0 <= x <= 255 for x in items):
                return bytearray(items)
            return items
        return self._elem(f["kind"], f["type_id"], v, what)

    def build(self, type_id, j):
        t = self.types.get(type_id)
        if t is None:
            raise Unsupported("unknown type %s" % type_id)
        if not isinstance(j, dict):
            raise Unsupported("%s: expected an object" % type_id)
        cls = getattr(self.py, type_id, None)
        if cls is None:
            raise Unsupported("generated module has no class %s" % type_id)
        fields = {f["id"]: f for f in t["fields"]}
        kwargs = {}
        for k, v in j.items():
            if k in fields:
                kwargs[k] = self._field(fields[k], v)
            elif k == "payload":
                if not isinstance(v, list) or not all(isinstance(x, int) and not isinstance(x, bool) and 0 <= x <= 255 for x in v):
                    raise Unsupported("payload: expected a list of bytes")
                kwargs[k] = bytes(v)
            else:
                raise Unsupported("%s: unknown key %s" % (type_id, k))
        return _gen("build", cls, **kwargs)

    # ---------------------------------------------------------------- codec ops
    def parse(self, type_id, data):
        t = self.types.get(type_id)
        if t is None:
            raise Unsupported("unknown type %s" % type_id)
        if t["problems"]:
            raise Unsupported("; ".join(t["problems"]))
        root = getattr(self.py, t["root"], None)
        if root is None:
            raise Unsupported("generated module has no class %s" % t["root"])
        obj = _gen("decode", root.parse_all, data)
        return obj

    def op_decode_full(self, type_id, arg):
        data = _hex(arg)
        obj = self.parse(type_id, data)
        return "ok", {"value": self.to_json(obj), "class": type(obj).__name__}

    def op_encode(self, type_id, arg):
        obj = self.build(type_id, _json(arg))
        data = _gen("encode", obj.serialize)
        out = {"hex": _tohex(data)}
        try:
            size = obj.size
            out["size"] = size if isinstance(size, int) else None
        except Exception as e:  # noqa: BLE001
            out["size"] = None
            out["size_error"] = type(e).__name__
        return "ok", out

    def op_size(self, type_id, arg):
        obj = self.build(type_id, _json(arg))
        size = _gen("size", lambda: obj.size)
        return "ok", {"size": size}

    def op_roundtrip(self, type_id, arg):
        obj = self.build(type_id, _json(arg))
        data = _gen("encode", obj.serialize)
        back = self.parse(type_id, _bytes(data))
        return "ok", {"hex": _tohex(data), "value": self.to_json(back), "class": type(back).__name__}

    def op_recode(self, type_id, arg):
        obj = self.parse(type_id, _hex(arg))
        data = _gen("encode", obj.serialize)
        return "ok", {"value": self.to_json(obj), "hex": _tohex(data), "class": type(obj).__name__}

    # ---------------------------------------------------------------- enum ops
    def _enum(self, enum_id):
        if enum_id not in self.enums:
            raise Unsupported("unknown enum %s" % enum_id)
        cls = getattr(self.py, enum_id, None)
        if cls is None:
            raise Unsupported("generated module has no enum %s" % enum_id)
        return cls

    def op_enum_from(self, type_id, arg):
        parts = arg.split("\t")
        if len(parts) == 2:
            type_id, arg = parts
        cls = self._enum(type_id)
        try:
            x = int(arg.strip(), 10)
        except ValueError:
            raise Unsupported("enum_from: bad integer %r" % arg)
        r = _gen("convert", cls.from_int, x)
        named = isinstance(r, cls)
        out = {"back": _big(int(r)), "named": named, "fits": 0 <= x < (1 << self.enums[type_id]["width"])}
        if named:
            out["name"] = r.name
        return "ok", out

    def op_enum_sweep(self, type_id, arg):
        cls = self._enum(type_id)
        try:
            lo, hi = [int(p.strip(), 10) for p in arg.split("\t")]
        except ValueError:
            raise Unsupported("enum_sweep: expected <lo>\\t<hi>")
        if hi < lo or hi - lo >= (1 << 20):
            raise Unsupported("enum_sweep: bad range")
        runs = []
        names = {}
        errors = {}
        for x in range(lo, hi + 1):
            try:
                r = cls.from_int(x)
                k = "ok" if int(r) == x else "bad"
                if isinstance(r, cls):
                    names[str(x)] = r.name
            except Exception as e:  # noqa: BLE001
                k = "err"
                errors[type(e).__name__] = errors.get(type(e).__name__, 0) + 1
            if runs and runs[-1][2] == k and runs[-1][0] + runs[-1][1] == x:
                runs[-1][1] += 1
            else:
                runs.append([x, 1, k])
        runs = [[_big(a), b, c] for a, b, c in runs]
        return "ok", {"runs": runs, "named": names, "errors": errors}


def _hex(s):
    s = s.strip()
    try:
        return bytes.fromhex(s)
    except ValueError:
        raise Unsupported("bad hex argument")


def _bytes(b):
    return bytes(b)


def _tohex(b):
    if not isinstance(b, (bytes, bytearray)):
        raise Unsupported("serialize returned %s" % type(b).__name__)
    return bytes(b).hex()


def _json(s):
    try:
        return json.loads(s)
    except ValueError as e:
        raise Unsupported("bad json argument: %s" % e)


CODEC_OPS = {"decode_full", "encode", "roundtrip", "recode", "size"}
ENUM_OPS = {"enum_from", "enum_sweep"}


def handle(state, module, type_id, op, arg):
    schemas, loaded = state
    if module not in schemas:
        raise Unsupported("unknown module %s" % module)
    m = loaded.get(module)
    if m is None:
        try:
            m = Module(module, schemas[module])
        except Exception as e:  # noqa: BLE001
            raise Unsupported("module %s cannot be imported: %s: %s" % (module, type(e).__name__, str(e)[:200]))
        loaded[module] = m
    if op in CODEC_OPS:
        if type_id not in m.types:
            if type_id in m.enums or type_id in m.schema["customs"]:
                raise Unsupported("%s is not a packet or struct" % type_id)
            raise Unsupported("unknown type %s" % type_id)
        return getattr(m, "op_" + op)(type_id, arg)
    if op in ENUM_OPS:
        return getattr(m, "op_" + op)(type_id, arg)
    raise Unsupported("unknown op %s" % op)


def main(schema_path):
    out = os.fdopen(os.dup(1), "w", encoding="utf-8", newline="\n")
    os.dup2(2, 1)  # stray prints of the code under test go to stderr
    sys.stdout = sys.stderr
    with open(schema_path, "r", encoding="utf-8") as f:
        schemas = json.load(f)
    state = (schemas, {})
    stdin = open(0, "r", encoding="utf-8", newline="\n", closefd=False)
    for line in stdin:
        line = line.rstrip("\n")
        if line == "":
            continue
        parts = line.split("\t", 4)
        cid = parts[0]
        while len(parts) < 5:
            parts.append("")
        _, module, type_id, op, arg = parts
        try:
            status, payload = handle(state, module, type_id, op, arg)
        except Unsupported as e:
            status, payload = "unsupported", str(e)
        except GenError as e:
            exc = e.exc
            payload = {"variant": type(exc).__name__, "stage": e.stage, "message": str(exc)[:200]}
            m = state[1].get(module)
            if m is not None and m.decode_error is not None:
                payload["decode_error"] = isinstance(exc, m.decode_error)
            status = "err"
        except (KeyboardInterrupt, SystemExit):
            raise
        except BaseException as e:  # noqa: BLE001 - harness bug: never die on a request
            status, payload = "unsupported", "driver error: %s: %s" % (type(e).__name__, str(e)[:200])
        try:
            text = json.dumps(payload, separators=(",", ":"))
        except (TypeError, ValueError) as e:
            status, text = "unsupported", json.dumps("unserialisable payload: %s" % e)
        out.write("%s\t%s\t%s\n" % (cid, status, text))
        out.flush()
