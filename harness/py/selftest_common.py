"""Helpers shared by the python / cxx / java selftests."""

import json
import pathlib
import re
import sys
import time

ROOT = pathlib.Path(__file__).resolve().parent.parent.parent
sys.path.insert(0, str(ROOT / "harness" / "lib"))

CANON = pathlib.Path("/repo/pdl-compiler/tests/canonical")
PDLC = ROOT / ".cache" / "target" / "debug" / "pdlc"
CACHE = ROOT / ".cache" / "h3-selftest"

TREE_LE = """little_endian_packets
enum E : 8 { X = 1, Y = 2..5, Z = .. }
enum F : 8 { X = 1, Y = 2..5 }
struct S { a: 8, e: E }
packet P { a: 8, _payload_ }
packet A : P (a = 1) { x: 16 }
packet B : P (a = 2) { y: 8[] }
packet Q { e: E, f: F, s: S, w: 24, _count_(ss): 8, ss: S[], v: 16[] }
"""
TREE_BE = TREE_LE.replace("little_endian_packets", "big_endian_packets")


def le_text():
    return (CANON / "le_test_file.pdl").read_text()


def be_text():
    text = le_text().replace("little_endian_packets", "big_endian_packets")
    out = []
    skip = False
    for line in text.split("\n"):
        if "Start: little_endian_only" in line:
            skip = True
        if not skip:
            out.append(line)
        if "End: little_endian_only" in line:
            skip = False
    return "\n".join(out)


def vectors(endian):
    return json.loads((CANON / ("%s_test_vectors.json" % endian)).read_text())


def excludes_from_script(script, multi=False):
    """--exclude-declaration arguments used by the repo's own test script."""
    text = pathlib.Path("/repo/pdl-compiler/tests/" + script).read_text()
    seen = []
    for m in re.finditer(r"--exclude-declaration\s+([A-Za-z0-9_]+)", text):
        if m.group(1) not in seen:
            seen.append(m.group(1))
    return seen


class Checker:
    def __init__(self, title):
        self.title = title
        self.passed = 0
        self.failed = 0
        self.notes = []

    def check(self, cond, what):
        if cond:
            self.passed += 1
        else:
            self.failed += 1
            if len(self.notes) < 25:
                self.notes.append("FAIL " + what)
        return cond

    def note(self, text):
        self.notes.append(text)

    def report(self):
        print("[%s] %d checks passed, %d failed" % (self.title, self.passed, self.failed))
        for n in self.notes:
            print("   " + n)
        return self.failed == 0


def value_matches(value, unpacked, constraints=None):
    """`value` (driver output, Rust shaped) agrees with a canonical `unpacked`
    object: every key of value is in unpacked with an equal value (recursively);
    keys only in unpacked must be fields fixed by constraints."""
    if isinstance(value, dict) and isinstance(unpacked, dict):
        for k, v in value.items():
            if k not in unpacked:
                return False
            if not value_matches(v, unpacked[k]):
                return False
        for k in unpacked:
            if k not in value:
                if constraints is None or k not in constraints:
                    return False
                if constraints[k] is not None and constraints[k] != unpacked[k]:
                    return False
        return True
    if isinstance(value, list) and isinstance(unpacked, list):
        return len(value) == len(unpacked) and all(value_matches(a, b) for a, b in zip(value, unpacked))
    return value == unpacked


def canonical_cases(schema, vecs, supported, limit_per_packet=None):
    """Yield (packet, test_index, test, target_type) for the vectors whose
    packet (and child) is part of the module."""
    for n, item in enumerate(vecs):
        packet = item["packet"]
        if packet not in schema["types"] or packet not in supported:
            continue
        for i, t in enumerate(item["tests"]):
            if limit_per_packet is not None and i >= limit_per_packet:
                break
            target = t.get("packet", packet)
            if target not in schema["types"] or target not in supported:
                continue
            yield packet, "%d.%d" % (n, i), t, target


class Timer:
    def __init__(self):
        self.t = time.monotonic()

    def lap(self):
        now = time.monotonic()
        d = now - self.t
        self.t = now
        return d
