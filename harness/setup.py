#!/usr/bin/env python3
"""MANIFEST.setup_cmd: build everything the checks need, offline."""
import os
import pathlib
import sys
import time

HERE = pathlib.Path(__file__).resolve().parent
sys.path.insert(0, str(HERE / "lib"))
sys.path.insert(0, str(HERE / "props"))
import common  # noqa: E402


def main():
    t0 = time.time()
    ok, out = common.build_coq()
    if not ok:
        print(out[-4000:])
        print("setup: Coq development does not build")
        return 1
    common.log(f"coq built {time.time() - t0:.0f}s")
    common.build_oracle()
    common.log(f"oracle built {time.time() - t0:.0f}s")
    common.build_pdlc()
    common.log(f"pdlc built {time.time() - t0:.0f}s")
    # warm the shared stages of the quick tier (compiles the harness crates)
    seed = int(os.environ.get("VERIF_SEED", "1") or 1)
    import warm
    warm.run(seed)
    common.log(f"setup done {time.time() - t0:.0f}s")
    return 0


if __name__ == "__main__":
    sys.exit(main())
