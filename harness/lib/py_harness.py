"""Python-backend harness (PROTOCOL.md section 3) and the helpers shared with
cxx_harness.py / java_harness.py.

Public API
----------
build(modules, work_dir, pdlc) -> pathlib.Path      launcher script to hand to run()
run(driver, requests, timeout_s=60) -> dict          case_id -> (status, payload)

Shared helpers (imported by the C++ / Java harnesses):
write_if_changed, run_pdlc, prepare_module, module_schema, to_upper_camel_case,
to_lower_camel_case, run_process, normalize_requests.

`requests` is a list whose items are either complete request lines
("<case_id>\\t<module>\\t<type>\\t<op>\\t<arg>", no newline) or tuples/lists of the
TAB-separated parts (joined with TAB by the runner).  The result maps each case id to
`(status, payload)` where payload is the decoded JSON payload of the reply line.
Additional statuses produced by the runner itself: "abort" (driver process died while
working on that case) and "timeout" (no reply for timeout_s seconds).
"""

import collections
import json
import os
import pathlib
import re
import resource
import selectors
import signal
import subprocess
import sys
import threading
import time

HARNESS_DIR = pathlib.Path(__file__).resolve().parent.parent
PY_DRIVER_DIR = HARNESS_DIR / "py"

# --------------------------------------------------------------------------
# small utilities
# --------------------------------------------------------------------------


def write_if_changed(path, text):
    """Write `text` (str or bytes) to `path` unless the file already has that
    content.  Returns True when the file was (re)written."""
    path = pathlib.Path(path)
    data = text.encode("utf-8") if isinstance(text, str) else text
    try:
        if path.read_bytes() == data:
            return False
    except OSError:
        pass
    path.parent.mkdir(parents=True, exist_ok=True)
    tmp = path.with_name(path.name + ".tmp~")
    tmp.write_bytes(data)
    os.replace(tmp, path)
    return True


def _tail(text, limit=2048):
    if text is None:
        return ""
    if isinstance(text, bytes):
        text = text.decode("utf-8", "replace")
    return text[-limit:]


_ANSI = re.compile(r"\x1b\[[0-9;]*[A-Za-z]")


def run_pdlc(pdlc, args, timeout=120, cwd=None):
    """Run pdlc; returns (ok, stdout_text, error_text)."""
    env = dict(os.environ)
    env["RUST_BACKTRACE"] = "0"
    env["NO_COLOR"] = "1"
    try:
        p = subprocess.run(
            [str(pdlc)] + [str(a) for a in args],
            stdout=subprocess.PIPE,
            stderr=subprocess.PIPE,
            stdin=subprocess.DEVNULL,
            env=env,
            cwd=cwd,
            timeout=timeout,
        )
    except subprocess.TimeoutExpired as e:
        return False, "", "pdlc timeout after %ss: %s" % (timeout, _tail(e.stderr))
    except OSError as e:
        return False, "", "pdlc could not be started: %s" % e
    out = p.stdout.decode("utf-8", "replace")
    err = _ANSI.sub("", p.stderr.decode("utf-8", "replace"))
    if p.returncode != 0:
        return False, out, "pdlc exit code %d: %s" % (p.returncode, _tail(err))
    return True, out, err


# --------------------------------------------------------------------------
# heck-compatible case conversion (heck 0.4: ToUpperCamelCase / ToLowerCamelCase)
# --------------------------------------------------------------------------


def _heck_words(s):
    words = []
    for word in re.split(r"[^A-Za-z0-9]+", s):
        if not word:
            continue
        init = 0
        mode = 0  # 0 boundary, 1 lowercase, 2 uppercase
        n = len(word)
        for i, c in enumerate(word):
            if i + 1 < n:
                nxt = word[i + 1]
                next_mode = 1 if c.islower() else 2 if c.isupper() else mode
                if next_mode == 1 and nxt.isupper():
                    words.append(word[init:i + 1])
                    init = i + 1
                    mode = 0
                elif mode == 2 and c.isupper() and nxt.islower():
                    words.append(word[init:i])
                    init = i
                    mode = 0
                else:
                    mode = next_mode
            else:
                words.append(word[init:])
    return words


def _capitalize(w):
    return w[:1].upper() + w[1:].lower()


def to_upper_camel_case(s):
    return "".join(_capitalize(w) for w in _heck_words(s))


def to_lower_camel_case(s):
    words = _heck_words(s)
    return "".join(w.lower() if i == 0 else _capitalize(w) for i, w in enumerate(words))


# --------------------------------------------------------------------------
# module preparation: PDL text -> file, JSON AST, schema
# --------------------------------------------------------------------------


def prepare_module(module, work_dir, pdlc):
    """Write work_dir/pdl/<name>.pdl, obtain the JSON AST (exclusions applied by
    pdlc itself).  Returns (pdl_path, exclude_args, ast or None, error or None)."""
    work_dir = pathlib.Path(work_dir)
    name = module["name"]
    pdl_path = work_dir / "pdl" / (name + ".pdl")
    write_if_changed(pdl_path, module["pdl"])
    exclude = list(module.get("exclude") or [])
    ex_args = []
    for d in exclude:
        ex_args += ["--exclude-declaration", d]
    ok, out, err = run_pdlc(pdlc, ["--output-format", "json"] + ex_args + [pdl_path])
    if not ok:
        return pdl_path, ex_args, None, "json: " + err
    try:
        ast = json.loads(out)
    except ValueError as e:
        return pdl_path, ex_args, None, "json: unparsable AST: %s" % e
    return pdl_path, ex_args, ast, None


def _strip_loc(o):
    if isinstance(o, dict):
        return {k: _strip_loc(v) for k, v in o.items() if k != "loc"}
    if isinstance(o, list):
        return [_strip_loc(x) for x in o]
    return o


def _inline_fields(fields, groups, constraints, depth=0):
    """Same transformation as analyzer.rs::inline_groups (constrained fields of
    a group become fixed fields)."""
    if depth > 64:
        raise ValueError("group recursion")
    out = []
    for f in fields:
        k = f.get("kind")
        if k == "group_field":
            cs = dict(constraints)
            for c in f.get("constraints") or []:
                cs[c["id"]] = c
            g = groups.get(f.get("group_id"))
            if g is None:
                raise ValueError("unknown group %r" % f.get("group_id"))
            out.extend(_inline_fields(g.get("fields") or [], groups, cs, depth + 1))
        elif k == "scalar_field" and f.get("id") in constraints:
            out.append({"kind": "fixed_field", "width": f.get("width"),
                        "value": constraints[f["id"]].get("value"), "cond": f.get("cond")})
        elif k == "typedef_field" and f.get("id") in constraints:
            out.append({"kind": "fixed_field", "enum_id": f.get("type_id"),
                        "tag_id": constraints[f["id"]].get("tag_id"), "cond": f.get("cond")})
        else:
            out.append(f)
    return out


def module_schema(name, ast):
    """Digest of the (already filtered) JSON AST used by all drivers.

    {"name", "endianness": "little_endian"|"big_endian",
     "enums":   {id: {"width", "tags": [{"id","value"} | {"id","range":[lo,hi],"tags":[..]} | {"id","other":true}], "open": bool}},
     "customs": {id: {"width": n|null}},
     "checksums": {id: {"width", "function"}},
     "types": {id: {
         "kind": "packet"|"struct", "parent": id|null, "root": id, "chain": [root..id],
         "children": [ids], "descendants": [ids],
         "own_payload": null|"payload"|"body",
         "fields": [F...]         every named field of the chain, root first, flags excluded
         "own_fields": [F...]     raw inlined field list of the declaration itself (all kinds)
         "constraints": {field id: {"value": n|null, "tag_id": s|null, "int": n|null}}
         "value_keys": [...]      keys of the Rust-shaped value object
         "uses": [type ids referenced by fields], "problems": [...]}}}
    F = {"id", "kind": "scalar"|"enum"|"struct"|"custom"|"checksum"|"array", "width", "type_id",
         "optional": bool, "declared_in": id, "constrained": bool,
         array only: "elem": {"kind","width","type_id"}, "size": n|null}
    """
    ast = _strip_loc(ast)
    decls = ast.get("declarations") or []
    endianness = (ast.get("endianness") or {}).get("value", "little_endian")
    groups = {d["id"]: d for d in decls if d.get("kind") == "group_declaration"}
    enums, customs, checksums, types = {}, {}, {}, {}
    order = []
    for d in decls:
        k = d.get("kind")
        if k == "enum_declaration":
            tags = []
            for t in d.get("tags") or []:
                if "value" in t and t.get("value") is not None:
                    tags.append({"id": t["id"], "value": t["value"]})
                elif "range" in t and t.get("range") is not None:
                    tags.append({"id": t["id"], "range": [t["range"]["start"], t["range"]["end"]],
                                 "tags": [{"id": s["id"], "value": s["value"]} for s in t.get("tags") or []]})
                else:
                    tags.append({"id": t["id"], "other": True})
            enums[d["id"]] = {"width": d.get("width"), "tags": tags,
                              "open": any(t.get("other") for t in tags)}
        elif k == "custom_field_declaration":
            customs[d["id"]] = {"width": d.get("width")}
        elif k == "checksum_declaration":
            checksums[d["id"]] = {"width": d.get("width"), "function": d.get("function")}
        elif k in ("packet_declaration", "struct_declaration"):
            order.append(d["id"])
            types[d["id"]] = {"kind": "packet" if k == "packet_declaration" else "struct",
                              "parent": d.get("parent_id"), "_decl": d, "problems": []}

    def type_kind(type_id):
        if type_id in enums:
            return "enum"
        if type_id in customs:
            return "custom"
        if type_id in checksums:
            return "checksum"
        if type_id in types:
            return "struct"
        return "unknown"

    # own (inlined) fields
    for tid in order:
        t = types[tid]
        d = t.pop("_decl")
        try:
            own = _inline_fields(d.get("fields") or [], groups, {})
        except ValueError as e:
            own = []
            t["problems"].append(str(e))
        flags = set()
        for f in own:
            c = f.get("cond")
            if c:
                flags.add(c.get("id"))
        t["own_raw"] = own
        t["flags"] = sorted(x for x in flags if x is not None)
        t["own_constraints"] = {c["id"]: {"value": c.get("value"), "tag_id": c.get("tag_id")}
                                for c in d.get("constraints") or []}
        pl = None
        for f in own:
            if f.get("kind") == "payload_field":
                pl = "payload"
            elif f.get("kind") == "body_field":
                pl = "body"
        t["own_payload"] = pl

    def named(f, declared_in, flags):
        k = f.get("kind")
        fid = f.get("id")
        if fid is None or fid in flags:
            return None
        base = {"id": fid, "optional": bool(f.get("cond")), "declared_in": declared_in,
                "width": None, "type_id": None}
        if f.get("cond"):
            base["cond"] = {"id": f["cond"].get("id"), "value": f["cond"].get("value")}
        if k == "scalar_field":
            base.update(kind="scalar", width=f.get("width"))
        elif k == "typedef_field":
            base.update(kind=type_kind(f.get("type_id")), type_id=f.get("type_id"))
            if base["kind"] == "enum":
                base["width"] = enums[f["type_id"]]["width"]
            elif base["kind"] == "custom":
                base["width"] = customs[f["type_id"]]["width"]
            elif base["kind"] == "checksum":
                base["width"] = checksums[f["type_id"]]["width"]
        elif k == "array_field":
            if f.get("type_id") is not None:
                ek = type_kind(f["type_id"])
                ew = None
                if ek == "enum":
                    ew = enums[f["type_id"]]["width"]
                elif ek == "custom":
                    ew = customs[f["type_id"]]["width"]
                elem = {"kind": ek, "width": ew, "type_id": f["type_id"]}
            else:
                elem = {"kind": "scalar", "width": f.get("width"), "type_id": None}
            base.update(kind="array", elem=elem, size=f.get("size"),
                        size_modifier=f.get("size_modifier"))
        else:
            return None
        return base

    for tid in order:
        t = types[tid]
        chain = []
        cur = tid
        seen = set()
        while cur is not None and cur in types and cur not in seen:
            seen.add(cur)
            chain.append(cur)
            cur = types[cur]["parent"]
        if cur is not None and cur not in types:
            t["problems"].append("parent %s not available" % cur)
        chain.reverse()
        t["chain"] = chain
        t["root"] = chain[0]
        constraints = {}
        for a in chain:
            constraints.update(types[a]["own_constraints"])
        fields = []
        for a in chain:
            flags = set(types[a]["flags"])
            for f in types[a]["own_raw"]:
                nf = named(f, a, flags)
                if nf is not None:
                    nf["constrained"] = nf["id"] in constraints
                    fields.append(nf)
        # integer value of each constraint
        cons = {}
        for cid, c in constraints.items():
            iv = c.get("value")
            if iv is None and c.get("tag_id") is not None:
                for f in fields:
                    if f["id"] == cid and f["kind"] == "enum":
                        for tag in enums[f["type_id"]]["tags"]:
                            if tag["id"] == c["tag_id"] and "value" in tag:
                                iv = tag["value"]
            cons[cid] = {"value": c.get("value"), "tag_id": c.get("tag_id"), "int": iv}
        t["constraints"] = cons
        t["fields"] = fields
        keys = [f["id"] for f in fields if not f["constrained"]]
        if t["own_payload"]:
            keys.append("payload")
        t["value_keys"] = keys
        uses = []
        for f in fields:
            tid2 = f["type_id"] if f["kind"] != "array" else f["elem"]["type_id"]
            if tid2 is not None and tid2 not in uses:
                uses.append(tid2)
            fk = f["kind"] if f["kind"] != "array" else f["elem"]["kind"]
            if fk == "unknown":
                t["problems"].append("field %s has unknown type %s" % (f["id"], tid2))
        t["uses"] = uses
    for tid in order:
        t = types[tid]
        t["children"] = [c for c in order if types[c]["parent"] == tid]
    for tid in order:
        desc = []
        stack = list(types[tid]["children"])
        while stack:
            c = stack.pop(0)
            if c in desc:
                continue
            desc.append(c)
            stack.extend(types[c]["children"])
        types[tid]["descendants"] = desc
    for tid in order:
        t = types[tid]
        t["own_fields"] = t.pop("own_raw")
        t.pop("own_constraints")
    return {"name": name, "endianness": endianness, "enums": enums, "customs": customs,
            "checksums": checksums, "types": types, "type_order": order}


# --------------------------------------------------------------------------
# generic request runner
# --------------------------------------------------------------------------


def normalize_requests(requests):
    out = []
    for r in requests:
        if isinstance(r, (tuple, list)):
            parts = [str(x) for x in r]
            while len(parts) < 5:
                parts.append("")
            line = "\t".join(parts)
        else:
            line = str(r)
        line = line.rstrip("\n")
        if "\n" in line or "\r" in line:
            raise ValueError("request contains a newline: %r" % line[:80])
        out.append((line.split("\t", 1)[0], line))
    return out


def _parse_reply(line):
    parts = line.split("\t", 2)
    if len(parts) < 2:
        return None
    cid, status = parts[0], parts[1]
    raw = parts[2] if len(parts) > 2 else ""
    try:
        payload = json.loads(raw) if raw != "" else None
    except ValueError:
        payload = raw
    return cid, status, payload


class _StderrTail(threading.Thread):
    def __init__(self, stream, limit=65536):
        super().__init__(daemon=True)
        self.stream = stream
        self.limit = limit
        self.buf = bytearray()

    def run(self):
        try:
            while True:
                chunk = self.stream.read1(65536) if hasattr(self.stream, "read1") else self.stream.read(65536)
                if not chunk:
                    break
                self.buf.extend(chunk)
                if len(self.buf) > self.limit:
                    del self.buf[:len(self.buf) - self.limit]
        except (OSError, ValueError):
            pass

    def tail(self, n=2048):
        return bytes(self.buf[-n:]).decode("utf-8", "replace")


class _Feeder(threading.Thread):
    def __init__(self, stream, lines):
        super().__init__(daemon=True)
        self.stream = stream
        self.lines = lines

    def run(self):
        try:
            for i in range(0, len(self.lines), 256):
                chunk = "".join(l + "\n" for l in self.lines[i:i + 256])
                self.stream.write(chunk.encode("utf-8"))
                self.stream.flush()
            self.stream.close()
        except (OSError, ValueError):
            pass


def _limits(mem_limit_mb, stack_mb, core=False):
    def fn():
        os.setsid()
        if mem_limit_mb:
            b = int(mem_limit_mb) << 20
            resource.setrlimit(resource.RLIMIT_AS, (b, b))
        if stack_mb:
            b = int(stack_mb) << 20
            try:
                resource.setrlimit(resource.RLIMIT_STACK, (b, b))
            except (ValueError, OSError):
                pass
        if not core:
            resource.setrlimit(resource.RLIMIT_CORE, (0, 0))
    return fn


def _kill(proc):
    try:
        os.killpg(proc.pid, signal.SIGKILL)
    except (OSError, ProcessLookupError):
        pass
    try:
        proc.kill()
    except OSError:
        pass


def run_process(argv, requests, timeout_s=60, env=None, cwd=None, mem_limit_mb=None,
                stack_mb=None, max_restarts=None):
    """Feed `requests` to the line-protocol driver `argv`; implements the
    abort / timeout / restart behaviour of PROTOCOL.md section 0."""
    reqs = normalize_requests(requests)
    results = collections.OrderedDict()
    pos = 0
    restarts = 0
    while pos < len(reqs):
        batch = reqs[pos:]
        proc = subprocess.Popen(
            [str(a) for a in argv], stdin=subprocess.PIPE, stdout=subprocess.PIPE,
            stderr=subprocess.PIPE, env=env, cwd=cwd, bufsize=0,
            preexec_fn=_limits(mem_limit_mb, stack_mb))
        errt = _StderrTail(proc.stderr)
        errt.start()
        feeder = _Feeder(proc.stdin, [line for _, line in batch])
        feeder.start()
        sel = selectors.DefaultSelector()
        sel.register(proc.stdout, selectors.EVENT_READ)
        buf = b""
        answered = 0  # replies received for batch[0:answered]
        failure = None
        last = time.monotonic()
        eof = False
        while answered < len(batch) and failure is None:
            remaining = timeout_s - (time.monotonic() - last)
            if remaining <= 0:
                failure = "timeout"
                break
            events = sel.select(min(remaining, 1.0))
            if not events:
                continue
            try:
                chunk = os.read(proc.stdout.fileno(), 1 << 16)
            except OSError:
                chunk = b""
            if not chunk:
                eof = True
                failure = "abort"
                break
            buf += chunk
            while True:
                nl = buf.find(b"\n")
                if nl < 0:
                    break
                line = buf[:nl].decode("utf-8", "replace").rstrip("\r")
                buf = buf[nl + 1:]
                rep = _parse_reply(line)
                if rep is None:
                    continue
                cid, status, payload = rep
                if answered < len(batch) and cid == batch[answered][0]:
                    results[cid] = (status, payload)
                    answered += 1
                    last = time.monotonic()
                # any other line is noise printed by the code under test
        sel.close()
        if failure is None:
            # all answered: let the process finish
            try:
                proc.wait(timeout=5)
            except subprocess.TimeoutExpired:
                _kill(proc)
                proc.wait()
            errt.join(1)
            pos += answered
            break
        # failure on batch[answered]
        if failure == "timeout":
            _kill(proc)
            proc.wait()
            errt.join(1)
            results[batch[answered][0]] = ("timeout", {"reason": "no reply for %ss" % timeout_s,
                                                       "stderr": errt.tail()})
        else:
            try:
                rc = proc.wait(timeout=10)
            except subprocess.TimeoutExpired:
                _kill(proc)
                rc = proc.wait()
            errt.join(2)
            info = {"returncode": rc, "stderr": errt.tail()}
            if rc is not None and rc < 0:
                try:
                    info["signal"] = signal.Signals(-rc).name
                except ValueError:
                    info["signal"] = str(-rc)
            else:
                info["reason"] = "driver exited with code %s before replying" % rc
            results[batch[answered][0]] = ("abort", info)
        _kill(proc)
        pos += answered + 1
        restarts += 1
        if max_restarts is not None and restarts > max_restarts:
            for cid, _ in reqs[pos:]:
                results[cid] = ("abort", {"reason": "too many driver restarts"})
            break
    return dict(results)


# --------------------------------------------------------------------------
# Python backend: build / run
# --------------------------------------------------------------------------


def _custom_module_source(schema):
    """Source of the `<module>_custom.py` support module providing the custom
    field classes and checksum functions a module declares.

    Conventions (documented in harness/py/README section of the final report):
    * sized custom field of width W: holds `.value`; parse_all / parse read
      W/8 bytes in the module's byte order; serialize() writes them back.
    * unsized custom field: one byte (as the repo's tests/custom_types.py).
    * checksum function: sum of the bytes modulo 2^width.
    """
    order = "little" if schema["endianness"] == "little_endian" else "big"
    lines = ["# generated by harness/lib/py_harness.py - do not edit", "from typing import Tuple", "", ""]
    for cid in sorted(schema["customs"]):
        width = schema["customs"][cid]["width"]
        nbytes = (width + 7) // 8 if width else 1
        lines += [
            "class %s:" % cid,
            "    NBYTES = %d" % nbytes,
            "",
            "    def __init__(self, value: int = 0):",
            "        self.value = value",
            "",
            "    def __eq__(self, other):",
            "        return isinstance(other, %s) and other.value == self.value" % cid,
            "",
            "    def __repr__(self):",
            "        return '%s(%%r)' %% (self.value,)" % cid,
            "",
            "    @staticmethod",
            "    def parse(span: bytes) -> Tuple['%s', bytes]:" % cid,
            "        if len(span) < %d:" % nbytes,
            "            raise IndexError('custom field %s needs %d bytes')" % (cid, nbytes),
            "        return (%s(int.from_bytes(bytes(span[:%d]), byteorder='%s')), span[%d:])" % (cid, nbytes, order, nbytes),
            "",
            "    @staticmethod",
            "    def parse_all(span: bytes) -> '%s':" % cid,
            "        if len(span) != %d:" % nbytes,
            "            raise IndexError('custom field %s needs exactly %d bytes')" % (cid, nbytes),
            "        return %s(int.from_bytes(bytes(span), byteorder='%s'))" % (cid, order),
            "",
            "    def serialize(self) -> bytes:",
            "        return int.to_bytes(self.value, length=%d, byteorder='%s')" % (nbytes, order),
            "",
            "    @property",
            "    def size(self) -> int:",
            "        return %d" % nbytes,
            "",
            "",
        ]
    for cid in sorted(schema["checksums"]):
        width = schema["checksums"][cid]["width"] or 8
        lines += [
            "def %s(span: bytes) -> int:" % cid,
            "    return sum(span) %% %d" % (1 << width),
            "",
            "",
        ]
    return "\n".join(lines)


def build(modules, work_dir, pdlc):
    """Generate the Python code of every module into work_dir/gen/<name>.py and
    write work_dir/run_driver.py (the launcher to pass to run())."""
    work_dir = pathlib.Path(work_dir)
    work_dir.mkdir(parents=True, exist_ok=True)
    gen = work_dir / "gen"
    gen.mkdir(exist_ok=True)
    failed = {}
    unimportable = {}
    schemas = {}
    t0 = time.monotonic()
    for m in modules:
        name = m["name"]
        pdl_path, ex_args, ast, err = prepare_module(m, work_dir, pdlc)
        if err:
            failed[name] = err
            continue
        try:
            schema = module_schema(name, ast)
        except Exception as e:  # malformed AST: treat as a generation failure
            failed[name] = "schema: %s: %s" % (type(e).__name__, e)
            continue
        ok, out, err = run_pdlc(pdlc, ["--output-format", "python", "--custom-field", name + "_custom"]
                                + ex_args + [pdl_path])
        if not ok:
            failed[name] = "python: " + err
            continue
        write_if_changed(gen / (name + "_custom.py"), _custom_module_source(schema))
        write_if_changed(gen / (name + ".py"), out)
        schemas[name] = schema
    # import check, one subprocess for all modules
    if schemas:
        code = (
            "import sys, importlib, json, traceback\n"
            "sys.path.insert(0, sys.argv[1])\n"
            "bad = {}\n"
            "for n in sys.argv[2:]:\n"
            "    try:\n"
            "        importlib.import_module(n)\n"
            "    except BaseException as e:\n"
            "        bad[n] = ''.join(traceback.format_exception_only(type(e), e))[-2048:]\n"
            "sys.stdout.write(json.dumps(bad))\n")
        try:
            p = subprocess.run([sys.executable, "-B", "-c", code, str(gen)] + sorted(schemas),
                               stdout=subprocess.PIPE, stderr=subprocess.PIPE, timeout=600)
            bad = json.loads(p.stdout.decode() or "{}")
        except Exception as e:
            bad = {n: "import check failed: %s" % e for n in schemas}
        for n, msg in bad.items():
            unimportable[n] = msg
            schemas.pop(n, None)
    write_if_changed(work_dir / "schema.json", json.dumps(schemas, sort_keys=True))
    report = {"language": "python", "failed_modules": failed, "uncompilable_modules": unimportable,
              "built_modules": sorted(schemas)}
    write_if_changed(work_dir / "build_report.json", json.dumps(report, indent=1, sort_keys=True))
    launcher = (
        "#!/usr/bin/env python3\n"
        "# generated by harness/lib/py_harness.py\n"
        "import sys\n"
        "sys.dont_write_bytecode = True\n"
        "sys.path.insert(0, %r)\n"
        "sys.path.insert(0, %r)\n"
        "import pydriver\n"
        "pydriver.main(%r)\n" % (str(gen), str(PY_DRIVER_DIR), str(work_dir / "schema.json")))
    driver = work_dir / "run_driver.py"
    write_if_changed(driver, launcher)
    build.last_seconds = time.monotonic() - t0
    return driver


def run(driver, requests, timeout_s=60, mem_limit_mb=4096):
    env = dict(os.environ)
    env["PYTHONHASHSEED"] = "0"
    env["PYTHONDONTWRITEBYTECODE"] = "1"
    env["PYTHONIOENCODING"] = "utf-8"
    return run_process([sys.executable, "-B", str(driver)], requests, timeout_s=timeout_s,
                       env=env, mem_limit_mb=mem_limit_mb)
