"""Rust codec harness: crate generator, builder and runner (PROTOCOL.md sections 0 and 1).

Public API::

    build(modules, work_dir, profile, pdlc, target_dir) -> pathlib.Path
    run(binary, requests, timeout_s=60, mem_limit_mb=4096, stack_mb=64) -> dict

Python 3.11, standard library only.  Nothing is written outside ``work_dir`` and
``target_dir``.
"""

from __future__ import annotations

import concurrent.futures
import contextlib
import fcntl
import hashlib
import json
import os
import pathlib
import re
import resource
import selectors
import shutil
import signal
import subprocess
import time

HERE = pathlib.Path(__file__).resolve().parent
TEMPLATE_DIR = HERE.parent / "rust" / "template"
REPO = pathlib.Path("/repo")
CRATE_NAME = "pdl-rust-harness"

# Identifiers the Rust backend prefixes with `r#` (pdl-compiler/src/backends/rust/mod.rs).
_RUST_RAW_IDENTS = frozenset(
    """as break const continue crate else enum extern false fn for if impl in let loop
    match mod move mut pub ref return self Self static struct super trait true type
    unsafe use where while async await dyn abstract become box do final macro override
    priv typeof unsized virtual yield try""".split()
)
# Module names that would clash with the crate's own items.
_RESERVED_MODULE_NAMES = _RUST_RAW_IDENTS | {
    "driver", "dispatch", "main", "gen", "macro_rules", "std", "core", "alloc", "bytes", "serde",
    "serde_json", "pdl_runtime", "thiserror"}
_IDENT_RE = re.compile(r"^[A-Za-z_][A-Za-z0-9_]*$")
_ANSI_RE = re.compile(r"\x1b\[[0-9;]*[A-Za-z]")

CODEC_OPS = ("decode", "decode_full", "decode_mut", "encode", "roundtrip", "recode",
             "default", "alloc_decode")
HIERARCHY_OPS = ("specialize", "try_from_parent", "to_parent")
ENUM_OPS = ("enum_from", "enum_sweep", "enum_default")
# Pseudo module answered by the driver itself (diagnostics, not in PROTOCOL.md): the type is
# ignored, ops are echo <text>, panic <msg>, abort, stack_overflow, hang, alloc <bytes>.
HARNESS_MODULE = "__harness"


# ---------------------------------------------------------------------------
# small helpers
# ---------------------------------------------------------------------------

def _write_if_changed(path: pathlib.Path, content) -> bool:
    """Write `content` (str or bytes) to `path` unless it already holds it."""
    data = content.encode("utf-8") if isinstance(content, str) else content
    try:
        if path.read_bytes() == data:
            return False
    except (FileNotFoundError, IsADirectoryError):
        pass
    path.parent.mkdir(parents=True, exist_ok=True)
    tmp = path.with_name(path.name + ".tmp%d" % os.getpid())
    tmp.write_bytes(data)
    os.replace(tmp, path)
    return True


def _tail(text: str, limit: int = 2000) -> str:
    text = _ANSI_RE.sub("", text)
    text = "\n".join(l for l in text.splitlines() if not l.startswith("WARNING conda.cli.condarc"))
    return text[-limit:]


def _rust_ident(name: str) -> str:
    return "r#" + name if name in _RUST_RAW_IDENTS else name


def _rust_str(s: str) -> str:
    # JSON string literals of ASCII text are valid Rust string literals.
    return json.dumps(s)


def _backing_width(width: int) -> int:
    for w in (8, 16, 32, 64):
        if width <= w:
            return w
    raise ValueError("width %r has no backing integer type" % (width,))


# ---------------------------------------------------------------------------
# per-module generation (pdlc + type table + dispatch source)
# ---------------------------------------------------------------------------

def types_from_ast(ast: dict, exclude=()) -> list[dict]:
    """Enumerate the dispatchable types of a module from pdlc's JSON AST.

    Returns a list (file order) of dicts with keys ``id``, ``kind`` (``packet``,
    ``struct``, ``enum``, ``custom``), ``parent``, ``ancestors`` (nearest first),
    ``children`` (file order), ``width`` and ``backing`` (enum / custom only).
    """
    exclude = set(exclude)
    decls = [d for d in ast.get("declarations", []) if d.get("id") not in exclude]
    by_id = {}
    out = []
    for d in decls:
        kind = d.get("kind")
        ident = d.get("id")
        if not isinstance(ident, str):
            continue
        if kind in ("packet_declaration", "struct_declaration"):
            t = {"id": ident, "kind": "packet" if kind == "packet_declaration" else "struct",
                 "parent": d.get("parent_id"), "ancestors": [], "children": []}
        elif kind == "enum_declaration":
            t = {"id": ident, "kind": "enum", "width": d.get("width"),
                 "backing": _backing_width(int(d.get("width")))}
        elif kind == "custom_field_declaration" and d.get("width") is not None:
            t = {"id": ident, "kind": "custom", "width": d.get("width"),
                 "backing": _backing_width(int(d.get("width")))}
        else:
            continue
        if ident in by_id:
            # duplicate identifiers are rejected by the analyzer; keep the first
            continue
        by_id[ident] = t
        out.append(t)
    for t in out:
        if t["kind"] not in ("packet", "struct"):
            continue
        seen = {t["id"]}
        p = t.get("parent")
        while p is not None and p in by_id and p not in seen and by_id[p]["kind"] in ("packet", "struct"):
            t["ancestors"].append(p)
            seen.add(p)
            p = by_id[p].get("parent")
        if t.get("parent") in by_id and by_id[t["parent"]]["kind"] in ("packet", "struct"):
            by_id[t["parent"]]["children"].append(t["id"])
    return out


def dispatch_source(name: str, types: list[dict]) -> str:
    """Rust source of `src/dispatch/<name>.rs`."""
    L = []
    L.append("// @generated by harness/lib/rust_harness.py -- dispatch table of module `%s`." % name)
    L.append("#![allow(warnings)]")
    L.append("use crate::driver::*;")
    L.append("use crate::%s as m;" % _rust_ident(name))
    L.append("use std::convert::TryFrom;")
    L.append("")
    L.append("pub fn dispatch(ty: &str, op: &str, arg: &str) -> Reply {")
    L.append("    match ty {")
    for i, t in enumerate(types):
        L.append("        %s => t%d(op, arg)," % (_rust_str(t["id"]), i))
    L.append("        _ => unsupported(format!(\"unknown type {:?} in module %s\", ty))," % name)
    L.append("    }")
    L.append("}")
    for i, t in enumerate(types):
        ty = "m::" + _rust_ident(t["id"])
        L.append("")
        L.append("// %s %s" % (t["kind"], t["id"]))
        L.append("fn t%d(op: &str, arg: &str) -> Reply {" % i)
        if t["kind"] == "enum":
            L.append("    enum_op::<%s, u%d>(op, arg)" % (ty, t["backing"]))
        elif t["kind"] == "custom":
            L.append("    codec::<%s>(op, arg)" % ty)
        else:
            L.append("    match op {")
            if t["children"]:
                child = "m::%sChild" % t["id"]
                L.append("        \"specialize\" => specialize::<%s, %s>(arg, |v: &%s| v.specialize()),"
                         % (ty, child, ty))
            if t["ancestors"]:
                L.append("        \"try_from_parent\" | \"to_parent\" => {")
                L.append("            let (anc, rest) = split_tab(arg);")
                L.append("            match (op, anc) {")
                for a in t["ancestors"]:
                    aty = "m::" + _rust_ident(a)
                    down = "|a: &%s| <%s as TryFrom<&%s>>::try_from(a).map_err(dbg)" % (aty, ty, aty)
                    up = "|v: &%s| <%s as TryFrom<&%s>>::try_from(v).map_err(dbg)" % (ty, aty, ty)
                    L.append("                (\"try_from_parent\", %s) => from_parent::<%s, %s>(rest, %s),"
                             % (_rust_str(a), ty, aty, down))
                    L.append("                (\"to_parent\", %s) => to_parent::<%s, %s>(rest, %s, %s),"
                             % (_rust_str(a), ty, aty, up, down))
                L.append("                _ => unsupported(format!(\"{:?} is not an ancestor of %s\", anc)),"
                         % t["id"])
                L.append("            }")
                L.append("        }")
            L.append("        _ => codec::<%s>(op, arg)," % ty)
            L.append("    }")
        L.append("}")
    L.append("")
    return "\n".join(L)


def _main_source(names: list[str]) -> str:
    L = ["// @generated by harness/lib/rust_harness.py",
         "#![allow(warnings)]",
         "mod driver;",
         "mod dispatch;"]
    for n in names:
        L.append("#[allow(warnings)] pub mod %s;" % n)
    L += ["", "fn main() {", "    driver::main_loop(dispatch::dispatch);", "}", ""]
    return "\n".join(L)


def _dispatch_root_source(names: list[str]) -> str:
    L = ["// @generated by harness/lib/rust_harness.py",
         "#![allow(warnings)]",
         "use crate::driver::*;"]
    for n in names:
        L.append("pub mod %s;" % n)
    L += ["", "pub fn dispatch(module: &str, ty: &str, op: &str, arg: &str) -> Reply {",
          "    match module {"]
    for n in names:
        L.append("        %s => %s::dispatch(ty, op, arg)," % (_rust_str(n), n))
    L += ["        _ => unsupported(format!(\"unknown module {:?}\", module)),",
          "    }", "}", ""]
    return "\n".join(L)


def _pdlc_env() -> dict:
    env = dict(os.environ)
    env["RUST_BACKTRACE"] = "0"
    env["NO_COLOR"] = "1"
    return env


def _run_pdlc(pdlc, args, timeout_s):
    """Returns (ok, stdout, message)."""
    try:
        p = subprocess.run([str(pdlc)] + args, stdin=subprocess.DEVNULL, stdout=subprocess.PIPE,
                           stderr=subprocess.PIPE, env=_pdlc_env(), timeout=timeout_s)
    except subprocess.TimeoutExpired as e:
        return False, "", "pdlc timed out after %ss: %s" % (timeout_s, _tail((e.stderr or b"").decode("utf-8", "replace")))
    except OSError as e:
        return False, "", "cannot run pdlc: %s" % e
    stderr = p.stderr.decode("utf-8", "replace")
    if p.returncode != 0:
        if p.returncode < 0:
            try:
                why = "killed by %s" % signal.Signals(-p.returncode).name
            except ValueError:
                why = "killed by signal %d" % -p.returncode
        else:
            why = "exit code %d" % p.returncode
        return False, "", "pdlc %s (%s): %s" % (" ".join(args[:2]), why, _tail(stderr))
    return True, p.stdout.decode("utf-8", "replace"), _tail(stderr)


def _generate_module(mod: dict, work_dir: pathlib.Path, pdlc: pathlib.Path, pdlc_stamp: str,
                     timeout_s: float) -> dict:
    """Run pdlc for one module.  Result: {"name", "ok", "rust", "types", "error"}."""
    name = mod["name"]
    exclude = list(mod.get("exclude") or [])
    pdl_text = mod["pdl"]
    pdl_path = work_dir / "pdl" / (name + ".pdl")
    _write_if_changed(pdl_path, pdl_text)

    gen_dir = work_dir / "gen"
    via = mod.get("via", "pdlc")
    extra_inputs = ""
    if via != "pdlc":
        # what the macro does is decided by pdl-derive's own source as well
        for q in sorted((REPO / "pdl-derive").rglob("*")):
            if q.is_file() and q.suffix in (".rs", ".toml"):
                extra_inputs += hashlib.sha256(q.read_bytes()).hexdigest()
    key = hashlib.sha256(json.dumps([pdlc_stamp, pdl_text, exclude, via, extra_inputs], sort_keys=True).encode()).hexdigest()
    cache = gen_dir / (name + ".json")
    try:
        cached = json.loads(cache.read_text())
        if cached.get("key") == key:
            cached["name"] = name
            return cached
    except (OSError, ValueError):
        pass

    res = {"key": key, "name": name, "ok": False, "rust": "", "types": [], "error": ""}
    excl_args = []
    for d in exclude:
        excl_args += ["--exclude-declaration", d]
    # JSON first: it runs parser + analyzer on the same filtered file as the Rust backend.
    ok, out, msg = _run_pdlc(pdlc, ["--output-format", "json"] + excl_args + [str(pdl_path)], timeout_s)
    if ok:
        try:
            ast = json.loads(out)
            res["types"] = types_from_ast(ast, exclude)
        except Exception as e:  # malformed AST / unexpected width
            ok, msg = False, "cannot use JSON AST: %r" % (e,)
    if ok and via == "derive":
        # the module is produced by the pdl_derive attribute macro at compile time, from the
        # same file (the macro joins the path onto CARGO_MANIFEST_DIR: an absolute path wins)
        res["rust"] = ('#[pdl_derive::pdl(%s)]\npub mod inner {}\npub use inner::*;\n'
                       % json.dumps(str(pdl_path.resolve())))
        res["derive"] = True
    elif ok and via == "derive_inline":
        res["rust"] = ('#[pdl_derive::pdl_inline(%s)]\npub mod inner {}\npub use inner::*;\n' % json.dumps(pdl_text))
        res["derive"] = True
    elif ok:
        ok, out, msg = _run_pdlc(pdlc, ["--output-format", "rust"] + excl_args + [str(pdl_path)], timeout_s)
        if ok:
            res["rust"] = out
    res["ok"] = ok
    res["error"] = "" if ok else msg
    _write_if_changed(cache, json.dumps(res))
    return res


# ---------------------------------------------------------------------------
# crate writing and cargo
# ---------------------------------------------------------------------------

def _write_crate(crate_dir: pathlib.Path, gens: dict, names: list[str]) -> None:
    """(Re)create the crate in `crate_dir` with exactly the modules `names`."""
    src = crate_dir / "src"
    (src / "dispatch").mkdir(parents=True, exist_ok=True)
    (crate_dir / ".cargo").mkdir(parents=True, exist_ok=True)
    toml = (TEMPLATE_DIR / "Cargo.toml").read_text()
    if any(gens[n].get("derive") for n in names):
        toml = toml.replace('[dependencies]\n', '[dependencies]\npdl-derive = { path = "/repo/pdl-derive" }\n')
    _write_if_changed(crate_dir / "Cargo.toml", toml.encode())
    _write_if_changed(crate_dir / ".cargo" / "config.toml", (TEMPLATE_DIR / "cargo-config.toml").read_bytes())
    # Cargo.lock: copy the repo's lock file first (cargo prunes it afterwards); copy again
    # only when the repo's lock file changed.
    repo_lock = REPO / "Cargo.lock"
    lock = crate_dir / "Cargo.lock"
    stamp = crate_dir / ".cargo-lock-source.sha256"
    digest = hashlib.sha256(repo_lock.read_bytes()).hexdigest()
    try:
        have = stamp.read_text().strip()
    except OSError:
        have = ""
    if have != digest or not lock.exists():
        shutil.copyfile(repo_lock, lock)
        stamp.write_text(digest + "\n")

    _write_if_changed(src / "driver.rs", (TEMPLATE_DIR / "driver.rs").read_bytes())
    _write_if_changed(src / "main.rs", _main_source(names))
    _write_if_changed(src / "dispatch.rs", _dispatch_root_source(names))
    keep_src = {"driver.rs", "main.rs", "dispatch.rs"} | {n + ".rs" for n in names}
    for n in names:
        _write_if_changed(src / (n + ".rs"), gens[n]["rust"])
        _write_if_changed(src / "dispatch" / (n + ".rs"), dispatch_source(n, gens[n]["types"]))
    for p in src.iterdir():
        if p.is_file() and p.name not in keep_src:
            p.unlink()
    keep_disp = {n + ".rs" for n in names}
    for p in (src / "dispatch").iterdir():
        if p.is_file() and p.name not in keep_disp:
            p.unlink()


def _cargo_env(target_dir: pathlib.Path) -> dict:
    env = dict(os.environ)
    env["CARGO_TARGET_DIR"] = str(target_dir)
    env["CARGO_NET_OFFLINE"] = "true"
    env["RUSTFLAGS"] = "-Awarnings"
    env["RUST_BACKTRACE"] = "0"
    env["CARGO_TERM_COLOR"] = "never"
    env.pop("CARGO_ENCODED_RUSTFLAGS", None)
    env.pop("CARGO_BUILD_RUSTFLAGS", None)
    return env


def _cargo(crate_dir: pathlib.Path, target_dir: pathlib.Path, subcmd: str, profile: str,
           timeout_s: float) -> dict:
    """Run `cargo build|check --message-format=json`.

    Returns {"ok", "errors": {relative file -> [rendered]}, "other": [rendered without file],
    "executable", "stderr", "timed_out", "seconds"}.
    """
    cmd = ["cargo", subcmd, "--offline", "--message-format=json"]
    if profile == "release":
        cmd.append("--release")
    t0 = time.monotonic()
    proc = subprocess.Popen(cmd, cwd=str(crate_dir), env=_cargo_env(target_dir), stdin=subprocess.DEVNULL,
                            stdout=subprocess.PIPE, stderr=subprocess.PIPE, start_new_session=True)
    timed_out = False
    try:
        out, errb = proc.communicate(timeout=timeout_s)
    except subprocess.TimeoutExpired:
        timed_out = True
        with contextlib.suppress(ProcessLookupError):
            os.killpg(proc.pid, signal.SIGKILL)
        out, errb = proc.communicate()
    res = {"ok": proc.returncode == 0 and not timed_out, "errors": {}, "other": [], "executable": None,
           "stderr": _tail(errb.decode("utf-8", "replace"), 4000), "timed_out": timed_out,
           "seconds": round(time.monotonic() - t0, 2)}
    crate_prefix = str(crate_dir.resolve()) + os.sep
    for line in out.decode("utf-8", "replace").splitlines():
        if not line.startswith("{"):
            continue
        try:
            msg = json.loads(line)
        except ValueError:
            continue
        reason = msg.get("reason")
        if reason == "compiler-artifact":
            if msg.get("executable") and (msg.get("target") or {}).get("name") == CRATE_NAME:
                res["executable"] = msg["executable"]
        elif reason == "compiler-message":
            m = msg.get("message") or {}
            if m.get("level") not in ("error", "error: internal compiler error"):
                continue
            files = set()

            def walk(span):
                while span:
                    f = span.get("file_name") or ""
                    if f.startswith(crate_prefix):
                        f = f[len(crate_prefix):]
                    if f.startswith("src/"):
                        files.add(f)
                    exp = span.get("expansion")
                    span = exp.get("span") if exp else None

            def collect(d):
                for s in d.get("spans") or []:
                    walk(s)
                for c in d.get("children") or []:
                    collect(c)

            collect(m)
            rendered = m.get("rendered") or m.get("message") or ""
            if files:
                for f in files:
                    res["errors"].setdefault(f, []).append(rendered)
            elif m.get("spans"):
                res["other"].append(rendered)
            # messages without any span ("aborting due to ...") are ignored
    return res


def _module_of_file(rel: str, names) -> str | None:
    p = pathlib.PurePosixPath(rel)
    if len(p.parts) == 2 and p.parts[0] == "src" and p.suffix == ".rs" and p.stem in names:
        return p.stem
    if len(p.parts) == 3 and p.parts[:2] == ("src", "dispatch") and p.suffix == ".rs" and p.stem in names:
        return p.stem
    return None


@contextlib.contextmanager
def _target_lock(target_dir: pathlib.Path):
    target_dir.mkdir(parents=True, exist_ok=True)
    fd = os.open(str(target_dir / ".pdl-rust-harness.lock"), os.O_RDWR | os.O_CREAT, 0o644)
    try:
        fcntl.flock(fd, fcntl.LOCK_EX)
        yield
    finally:
        with contextlib.suppress(OSError):
            fcntl.flock(fd, fcntl.LOCK_UN)
        os.close(fd)


def build(modules, work_dir, profile, pdlc, target_dir, *, jobs=None, pdlc_timeout_s=120,
          cargo_timeout_s=3600, check_timeout_s=600) -> pathlib.Path:
    """Generate, compile and return the path of the harness binary.

    See PROTOCOL.md section 1.  The returned binary is a private copy under
    ``work_dir/bin/<profile>/`` (the shared ``target_dir`` may be overwritten by the
    next call).  ``work_dir/build_report.json`` describes what happened.
    """
    if profile not in ("dev", "release"):
        raise ValueError("profile must be 'dev' or 'release', not %r" % (profile,))
    work_dir = pathlib.Path(work_dir).resolve()
    target_dir = pathlib.Path(target_dir).resolve()
    pdlc = pathlib.Path(pdlc).resolve()
    if not pdlc.is_file():
        raise FileNotFoundError("pdlc binary not found: %s" % pdlc)
    seen = set()
    for m in modules:
        n = m.get("name")
        if not isinstance(n, str) or not _IDENT_RE.match(n) or n in _RESERVED_MODULE_NAMES or n.startswith("__"):
            raise ValueError("module name %r is not a usable Rust module identifier" % (n,))
        if n in seen:
            raise ValueError("duplicate module name %r" % (n,))
        seen.add(n)
        if not isinstance(m.get("pdl"), str):
            raise ValueError("module %r has no 'pdl' source text" % (n,))

    t_start = time.monotonic()
    for sub in ("pdl", "gen", "src", ".cargo"):
        (work_dir / sub).mkdir(parents=True, exist_ok=True)
    st = pdlc.stat()
    pdlc_stamp = "%s:%d:%d" % (pdlc, st.st_mtime_ns, st.st_size)

    report = {"profile": profile, "work_dir": str(work_dir), "target_dir": str(target_dir),
              "pdlc": str(pdlc), "failed_modules": {}, "uncompilable_modules": {}, "modules": {},
              "binary": None, "cargo_runs": [], "timings": {}}

    # 1. pdlc, in parallel
    order = [m["name"] for m in modules]
    gens = {}
    jobs = jobs or min(8, os.cpu_count() or 1)
    with concurrent.futures.ThreadPoolExecutor(max_workers=max(1, jobs)) as pool:
        for res in pool.map(lambda m: _generate_module(m, work_dir, pdlc, pdlc_stamp, pdlc_timeout_s), modules):
            gens[res["name"]] = res
    good = []
    for n in order:
        if gens[n]["ok"]:
            good.append(n)
        else:
            report["failed_modules"][n] = gens[n]["error"]
    # remove stale pdl / gen files of modules that are no longer part of the crate
    for d, suffixes in ((work_dir / "pdl", (".pdl",)), (work_dir / "gen", (".json",))):
        for p in d.iterdir():
            if p.is_file() and p.suffix in suffixes and p.stem not in seen:
                p.unlink()
    report["timings"]["pdlc_s"] = round(time.monotonic() - t_start, 2)

    # 2. cargo build, dropping the modules rustc rejects
    t_cargo = time.monotonic()
    executable = None
    # Verdicts of earlier builds in this work_dir are remembered (keyed by everything that
    # influences compilation of the module), so that a rebuild does not go through the
    # failing attempt again and does not touch src/main.rs back and forth.
    skeleton = _skeleton_stamp()
    for n in list(good):
        verdict = gens[n].get("uncompilable")
        if verdict and verdict.get("stamp") == _module_stamp(skeleton, n, gens[n]):
            report["uncompilable_modules"][n] = verdict["error"]
            good.remove(n)
    with _target_lock(target_dir):
        report["timings"]["lock_wait_s"] = round(time.monotonic() - t_cargo, 2)
        while True:
            _write_crate(work_dir, gens, good)
            r = _cargo(work_dir, target_dir, "build", profile, cargo_timeout_s)
            report["cargo_runs"].append({"cmd": "build", "modules": len(good), "ok": r["ok"],
                                         "seconds": r["seconds"], "timed_out": r["timed_out"]})
            if r["ok"]:
                executable = r["executable"] or str(
                    target_dir / ("release" if profile == "release" else "debug") / CRATE_NAME)
                break
            # Attribute rustc's errors to modules through the file names in the diagnostics.
            bad = {}
            for rel, rendered in r["errors"].items():
                mod = _module_of_file(rel, set(good))
                if mod is not None:
                    bad.setdefault(mod, []).extend(rendered)
            if not bad:
                # No attributable diagnostic (rustc crash, timeout, error outside the modules):
                # compile every module alone, as PROTOCOL.md describes.
                bad = _bisect_alone(work_dir, target_dir, gens, good, profile, check_timeout_s, report)
            if not bad and not report.get("cleaned_once"):
                # every module compiles alone: the failure is not in the generated code.  The
                # usual cause is an incremental-compilation cache left inconsistent by a killed
                # rustc (undefined symbols at link time): drop this crate's artifacts, once.
                report["cleaned_once"] = True
                subprocess.run(["cargo", "clean", "--offline", "-p", "pdl-rust-harness"]
                               + (["--release"] if profile == "release" else []),
                               cwd=work_dir, env=_cargo_env(target_dir), stdout=subprocess.DEVNULL,
                               stderr=subprocess.DEVNULL, timeout=600)
                continue
            if not bad:
                _write_report(work_dir, report)
                raise RuntimeError(
                    "cargo build failed and no module could be blamed:\n%s\n%s"
                    % ("\n".join(sum(r["errors"].values(), []) + r["other"])[-4000:], r["stderr"]))
            for mod, rendered in bad.items():
                text = _ANSI_RE.sub("", "\n".join(rendered))[:2048]
                report["uncompilable_modules"][mod] = text
                gens[mod]["uncompilable"] = {"stamp": _module_stamp(skeleton, mod, gens[mod]), "error": text}
                _write_if_changed(work_dir / "gen" / (mod + ".json"), json.dumps(gens[mod]))
            good = [n for n in good if n not in bad]

        # 3. private copy of the binary
        bin_dir = work_dir / "bin" / profile
        bin_dir.mkdir(parents=True, exist_ok=True)
        binary = bin_dir / CRATE_NAME
        tmp = bin_dir / (CRATE_NAME + ".tmp%d" % os.getpid())
        shutil.copy2(executable, tmp)
        os.replace(tmp, binary)
    report["timings"]["cargo_s"] = round(time.monotonic() - t_cargo, 2)
    report["timings"]["total_s"] = round(time.monotonic() - t_start, 2)
    report["binary"] = str(binary)
    for n in good:
        report["modules"][n] = {"types": gens[n]["types"]}
    _write_report(work_dir, report)
    return binary


def _skeleton_stamp() -> str:
    """Hash of everything outside the generated modules that decides whether they compile."""
    h = hashlib.sha256()
    for p in (TEMPLATE_DIR / "driver.rs", TEMPLATE_DIR / "Cargo.toml", REPO / "pdl-runtime" / "src" / "lib.rs",
              REPO / "Cargo.lock"):
        try:
            h.update(p.read_bytes())
        except OSError:
            h.update(b"<missing %s>" % str(p).encode())
    try:
        h.update(subprocess.run(["rustc", "-V"], stdout=subprocess.PIPE, stderr=subprocess.DEVNULL,
                                stdin=subprocess.DEVNULL, timeout=60).stdout)
    except (OSError, subprocess.SubprocessError):
        pass
    return h.hexdigest()


def _module_stamp(skeleton: str, name: str, gen: dict) -> str:
    h = hashlib.sha256()
    h.update(skeleton.encode())
    h.update(gen.get("key", "").encode())
    h.update(dispatch_source(name, gen["types"]).encode())
    return h.hexdigest()


def _write_report(work_dir: pathlib.Path, report: dict) -> None:
    _write_if_changed(work_dir / "build_report.json", json.dumps(report, indent=1, sort_keys=True) + "\n")


def _bisect_alone(work_dir, target_dir, gens, names, profile, timeout_s, report) -> dict:
    """`cargo check` a crate holding one module at a time; returns {module: [error text]}."""
    check_dir = work_dir / "check"
    bad = {}
    for n in names:
        _write_crate(check_dir, gens, [n])
        r = _cargo(check_dir, target_dir, "check", profile, timeout_s)
        report["cargo_runs"].append({"cmd": "check", "module": n, "ok": r["ok"], "seconds": r["seconds"],
                                     "timed_out": r["timed_out"]})
        if not r["ok"]:
            text = sum(r["errors"].values(), []) + r["other"]
            if r["timed_out"]:
                text.append("cargo check timed out after %ss" % timeout_s)
            if not text:
                text = [r["stderr"]]
            bad[n] = text
    if len(bad) == len(names) and names:
        # Everything fails alone: most likely the crate skeleton itself is broken, which is
        # not the modules' fault.  Check the empty crate to tell the two apart.
        _write_crate(check_dir, gens, [])
        r = _cargo(check_dir, target_dir, "check", profile, timeout_s)
        if not r["ok"]:
            raise RuntimeError("the harness crate does not compile even without modules:\n%s\n%s"
                               % ("\n".join(sum(r["errors"].values(), []) + r["other"])[-4000:], r["stderr"]))
    return bad


# ---------------------------------------------------------------------------
# runner
# ---------------------------------------------------------------------------

def _set_limits(mem_limit_mb, stack_mb):
    def apply():
        for res_id, mb in ((resource.RLIMIT_AS, mem_limit_mb), (resource.RLIMIT_STACK, stack_mb)):
            if not mb:
                continue
            want = int(mb) * 1024 * 1024
            soft, hard = resource.getrlimit(res_id)
            if hard != resource.RLIM_INFINITY and want > hard:
                want = hard
            resource.setrlimit(res_id, (want, hard))
        resource.setrlimit(resource.RLIMIT_CORE, (0, 0))
    return apply


def _decode_payload(text):
    if text is None:
        return None
    try:
        return json.loads(text)
    except ValueError:
        return text


class _Driver:
    """One driver process with non-blocking pipes."""

    def __init__(self, binary, mem_limit_mb, stack_mb, extra_env=None):
        env = dict(os.environ)
        env["RUST_BACKTRACE"] = "0"
        if extra_env:
            env.update(extra_env)
        self.proc = subprocess.Popen([str(binary)], stdin=subprocess.PIPE, stdout=subprocess.PIPE,
                                     stderr=subprocess.PIPE, env=env, close_fds=True,
                                     preexec_fn=_set_limits(mem_limit_mb, stack_mb))
        self.stdin_fd = self.proc.stdin.fileno()
        self.stdout_fd = self.proc.stdout.fileno()
        self.stderr_fd = self.proc.stderr.fileno()
        for fd in (self.stdin_fd, self.stdout_fd, self.stderr_fd):
            os.set_blocking(fd, False)
        self.sel = selectors.DefaultSelector()
        self.sel.register(self.stdout_fd, selectors.EVENT_READ, "out")
        self.sel.register(self.stderr_fd, selectors.EVENT_READ, "err")
        self.stdin_registered = False
        self.stdin_open = True
        self.stderr_open = True
        self.stderr_tail = b""
        self.outbuf = bytearray()      # bytes read from stdout, not yet split into lines
        self.wbuf = b""                # bytes waiting to be written to stdin
        self.wpos = 0

    def want_write(self, flag):
        if not self.stdin_open:
            return
        if flag and not self.stdin_registered:
            self.sel.register(self.stdin_fd, selectors.EVENT_WRITE, "in")
            self.stdin_registered = True
        elif not flag and self.stdin_registered:
            self.sel.unregister(self.stdin_fd)
            self.stdin_registered = False

    def close_stdin(self):
        if self.stdin_open:
            self.want_write(False)
            self.stdin_open = False
            with contextlib.suppress(OSError):
                self.proc.stdin.close()

    def read_stderr(self):
        try:
            data = os.read(self.stderr_fd, 65536)
        except BlockingIOError:
            return
        except OSError:
            data = b""
        if not data:
            if self.stderr_open:
                self.stderr_open = False
                with contextlib.suppress(KeyError, ValueError):
                    self.sel.unregister(self.stderr_fd)
            return
        self.stderr_tail = (self.stderr_tail + data)[-4096:]

    def finish(self, kill=False, grace_s=5.0):
        """Terminate and reap the process; returns its return code."""
        self.close_stdin()
        if kill:
            with contextlib.suppress(OSError):
                self.proc.kill()
        try:
            rc = self.proc.wait(timeout=grace_s)
        except subprocess.TimeoutExpired:
            with contextlib.suppress(OSError):
                self.proc.kill()
            rc = self.proc.wait()
        # drain what is left of stderr
        deadline = time.monotonic() + 1.0
        while self.stderr_open and time.monotonic() < deadline:
            before = len(self.stderr_tail)
            self.read_stderr()
            if self.stderr_open and len(self.stderr_tail) == before:
                time.sleep(0.01)
        with contextlib.suppress(Exception):
            self.sel.close()
        for f in (self.proc.stdout, self.proc.stderr):
            with contextlib.suppress(OSError):
                f.close()
        return rc

    def stderr_text(self):
        return _tail(self.stderr_tail.decode("utf-8", "replace"), 2000)


def _death_payload(rc, stderr_text):
    payload = {"returncode": rc, "stderr": stderr_text}
    if rc is not None and rc < 0:
        try:
            payload["signal"] = signal.Signals(-rc).name
        except ValueError:
            payload["signal"] = "SIG%d" % -rc
    else:
        payload["reason"] = "driver exited with code %s before replying" % (rc,)
    return payload


def run(binary, requests, timeout_s=60, mem_limit_mb=4096, stack_mb=64, env=None) -> dict:
    """Feed `requests` (tuples ``(case_id, module, type, op, arg)``) to the driver.

    Returns ``{case_id: (status, payload)}``; `payload` is JSON-decoded when it is JSON.
    Besides the driver's own statuses (``ok``, ``err``, ``panic``, ``none``,
    ``unsupported``) the runner produces ``abort`` (the process died while working on the
    case; payload ``{"signal": "SIGABRT", ...}`` or ``{"reason": ...}``, plus
    ``returncode`` and the tail of ``stderr``) and ``timeout`` (no reply for `timeout_s`
    seconds; payload ``{"reason": ..., "timeout_s": n}``).  After either, a fresh process
    continues with the following case.
    """
    binary = pathlib.Path(binary)
    if not binary.is_file():
        raise FileNotFoundError("harness binary not found: %s" % binary)
    results: dict = {}
    lines: list[tuple[object, bytes]] = []
    for req in requests:
        case_id, module, ty, op, arg = req
        arg = "" if arg is None else str(arg)
        fields = [str(case_id), str(module), str(ty), str(op)]
        if any(("\t" in f or "\n" in f or "\r" in f) for f in fields) or "\n" in arg or "\r" in arg:
            results[case_id] = ("unsupported", "request field contains TAB or newline; not sent")
            continue
        if fields[0] == "":
            results[case_id] = ("unsupported", "empty case id; not sent")
            continue
        lines.append((case_id, ("\t".join(fields + [arg]) + "\n").encode("utf-8")))

    n = len(lines)
    next_reply = 0           # index of the first unanswered request
    max_pending = 1 << 20    # bytes queued for stdin at most
    while next_reply < n:
        drv = _Driver(binary, mem_limit_mb, stack_mb, env)
        next_send = next_reply
        last_progress = time.monotonic()
        failure = None           # (status, payload) for lines[next_reply]
        dead = False             # stdout reached EOF
        try:
            while next_reply < n and failure is None:
                # refill the write buffer
                if drv.stdin_open and drv.wpos >= len(drv.wbuf):
                    if next_send < n:
                        chunk = []
                        size = 0
                        while next_send < n and size < max_pending:
                            chunk.append(lines[next_send][1])
                            size += len(lines[next_send][1])
                            next_send += 1
                        drv.wbuf = b"".join(chunk)
                        drv.wpos = 0
                    else:
                        drv.wbuf = b""
                        drv.wpos = 0
                drv.want_write(drv.wpos < len(drv.wbuf))

                remaining = timeout_s - (time.monotonic() - last_progress)
                if remaining <= 0:
                    failure = ("timeout", {"reason": "no reply within %ss" % timeout_s, "timeout_s": timeout_s})
                    break
                events = drv.sel.select(min(remaining, 1.0))
                for key, _mask in events:
                    if key.data == "in":
                        try:
                            w = os.write(drv.stdin_fd, memoryview(drv.wbuf)[drv.wpos:drv.wpos + 65536])
                            drv.wpos += w
                        except BlockingIOError:
                            pass
                        except OSError:      # EPIPE: the driver is gone; stdout EOF will tell
                            drv.close_stdin()
                    elif key.data == "err":
                        drv.read_stderr()
                    elif key.data == "out":
                        try:
                            data = os.read(drv.stdout_fd, 1 << 16)
                        except BlockingIOError:
                            continue
                        except OSError:
                            data = b""
                        if not data:
                            dead = True
                            failure = ("abort", {})
                            break
                        drv.outbuf += data
                        if b"\n" not in data:
                            continue
                        *full, rest = bytes(drv.outbuf).split(b"\n")
                        drv.outbuf = bytearray(rest)
                        for raw in full:
                            if next_reply >= n:
                                break
                            parts = raw.decode("utf-8", "replace").split("\t", 2)
                            case_id = lines[next_reply][0]
                            if len(parts) < 2 or parts[0] != str(case_id):
                                failure = ("abort", {"reason": "protocol desync: expected a reply for %r, got %r"
                                                     % (str(case_id), raw[:200].decode("utf-8", "replace"))})
                                break
                            results[case_id] = (parts[1], _decode_payload(parts[2] if len(parts) > 2 else None))
                            next_reply += 1
                            last_progress = time.monotonic()
                        if failure is not None:
                            break
        except BaseException:
            drv.finish(kill=True)
            raise
        if failure is None:
            drv.finish(kill=False, grace_s=5.0)
        elif dead:
            # stdout reached EOF: the process is dead or dying; reap it to learn why
            rc = drv.finish(kill=False, grace_s=2.0)
            failure = ("abort", _death_payload(rc, drv.stderr_text()))
        else:
            drv.finish(kill=True)
            failure[1]["stderr"] = drv.stderr_text()
        if failure is not None and next_reply < n:
            results[lines[next_reply][0]] = failure
            next_reply += 1
    return results


__all__ = ["build", "run", "types_from_ast", "dispatch_source", "CODEC_OPS", "HIERARCHY_OPS", "ENUM_OPS",
           "HARNESS_MODULE"]
