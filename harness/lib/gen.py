"""Deterministic generators of PDL descriptions (as pdlast dicts), values and byte
strings. Every random choice comes from the `random.Random` instance passed in."""

import itertools
import random
from pdlast import *  # noqa: F401,F403
import pdlast


# --------------------------------------------------------------------------- helpers

def backing(w):
    for b in (8, 16, 32, 64):
        if w <= b:
            return b
    return None


def partitions_of(total, rng, max_parts=6):
    """a random composition of `total` into 1..max_parts positive parts"""
    k = rng.randint(1, min(max_parts, total))
    cuts = sorted(rng.sample(range(1, total), k - 1)) if k > 1 else []
    parts = [b - a for a, b in zip([0] + cuts, cuts + [total])]
    return parts


class Names:
    def __init__(self, prefix):
        self.prefix = prefix
        self.n = 0

    def new(self, stem="T"):
        self.n += 1
        return f"{self.prefix}{stem}{self.n}"


# --------------------------------------------------------------------------- enum shapes

def enum_shapes(names, widths=(8,)):
    """the seven shapes of C15 for each width: closed/open x complete/incomplete x ranges"""
    out = []
    for w in widths:
        mx = (1 << w) - 1
        mid = max(1, mx // 2)
        # closed incomplete, values only (tags at 0 and max)
        tags = [tag_v("A", 0)]
        if mx >= 1:
            tags.append(tag_v("B", mx))
        if mx >= 3:
            tags.insert(1, tag_v("M", mid))
        out.append(enum(names.new("Eci"), w, tags))
        # open incomplete; the default tag is NOT the last one (any order is legal)
        out.append(enum(names.new("Eoi"), w, tags[:1] + [tag_o("Other")] + tags[1:]))
        if mx >= 7:
            lo, hi = 2, min(mx - 2, 5 if w <= 8 else mid)
            # closed with ranges (one with nested tags, one without)
            rt = [tag_v("A", 0), tag_r("R", lo, hi, [tag_v("RA", lo), tag_v("RB", hi)]),
                  tag_v("Z", mx)]
            out.append(enum(names.new("Ecr"), w, rt))
            out.append(enum(names.new("Eor"), w, rt[:1] + [tag_o("Other")] + rt[1:] if w % 2 else rt + [tag_o("Other")]))
            if mx >= 15:
                rt2 = [tag_v("A", 1), tag_r("R", lo + 1, hi, []), tag_r("S", hi + 1, mx - 1, [tag_v("SA", hi + 1)])]
                out.append(enum(names.new("Ecr2"), w, rt2))
        # complete with ranges
        if mx >= 3:
            out.append(enum(names.new("Ecc"), w, [tag_v("A", 0), tag_r("R", 1, mx - 1, [tag_v("RM", mid)]), tag_v("Z", mx)]))
            out.append(enum(names.new("Eco"), w, [tag_r("R", 0, mx, []), tag_o("Other")]))
        # complete, values only (small widths)
        if w <= 3:
            out.append(enum(names.new("Ecv"), w, [tag_v(f"V{i}", i) for i in range(mx + 1)]))
    return out


# --------------------------------------------------------------------------- bit-field sweep

def bitfield_packets(names, rng, enums_by_width, count, sizes_ok=True, quick=False):
    """packets made of bit-field groups; every group width 8..64 and every field kind."""
    out = []
    widths = [8, 16, 24, 32, 40, 48, 56, 64]
    kinds = ["scalar", "scalar", "scalar", "enum", "fixed_s", "fixed_e", "reserved", "size", "count"]
    for i in range(count):
        W = widths[i % len(widths)]
        parts = partitions_of(W, rng, 6)
        fields = []
        tail = []
        used_size = False
        for j, w in enumerate(parts):
            kind = kinds[rng.randrange(len(kinds))]
            if kind == "enum" or kind == "fixed_e":
                cands = enums_by_width.get(w)
                if not cands:
                    kind = "scalar"
            if kind in ("size", "count") and (used_size or not sizes_ok or w > 16):
                kind = "scalar"
            if kind == "scalar":
                fields.append(scalar(f"f{j}", w))
            elif kind == "enum":
                e = cands[rng.randrange(len(cands))]
                fields.append(typedef(f"f{j}", e["id"]))
            elif kind == "fixed_s":
                fields.append(fixed_s(w, rng.choice([0, 1, (1 << w) - 1, rng.randrange(1 << w)])))
            elif kind == "fixed_e":
                e = cands[rng.randrange(len(cands))]
                vt = [t for t in e["tags"] if "value" in t]
                if vt:
                    fields.append(fixed_e(e["id"], rng.choice(vt)["id"]))
                else:
                    fields.append(scalar(f"f{j}", w))
            elif kind == "reserved":
                fields.append(reserved(w))
            elif kind == "size":
                used_size = True
                fields.append(size_f("arr", w))
                tail = [array("arr", width=rng.choice([8, 16, 24]))]
            elif kind == "count":
                used_size = True
                fields.append(count_f("arr", w))
                tail = [array("arr", width=rng.choice([8, 16, 32]))]
        out.append(packet(names.new("Bf"), fields + tail))
    # single-field groups of every ladder / non-ladder width
    for w in widths:
        out.append(packet(names.new("Bs"), [scalar("a", w)]))
        out.append(packet(names.new("Br"), [reserved(w), scalar("a", 8)]))
        # whole-octet reserved chunk AFTER other chunks (length guards must count what was
        # already read)
        out.append(packet(names.new("Br"), [scalar("a", 8), reserved(w), scalar("b", 8), scalar("c", 16)]))
    out.append(packet(names.new("Br"), [scalar("a", 4), scalar("b", 4), reserved(8), scalar("c", 16), reserved(16)]))
    # every field width 1..63 in a two-field group
    for w in (range(1, 64, 2) if quick else range(1, 64)):
        w = w if not quick else (w if rng.random() < 0.5 else w + 1)
        if w > 63:
            w = 63
        pad = (8 - w % 8) % 8
        fs = [scalar("a", w)] + ([scalar("p", pad)] if pad else [])
        out.append(packet(names.new("Bw"), fs if rng.random() < 0.5 else list(reversed(fs))))
    return out


# --------------------------------------------------------------------------- structs used as elements

def element_structs(names):
    s_static = struct(names.new("Sst"), [scalar("a", 8), scalar("b", 16)])
    s_sized = struct(names.new("Ssz"), [size_f("v", 8), array("v", width=8)])
    s_counted = struct(names.new("Scn"), [count_f("v", 4), scalar("k", 4), array("v", width=16)])
    s_greedy = struct(names.new("Sgr"), [scalar("t", 8), array("v", width=8)])       # consumes the rest
    return s_static, s_sized, s_counted, s_greedy


def array_packets(names, rng, enums8, enums16, structs, padding_ok=True, elementsize_ok=True, quick=False):
    s_static, s_sized, s_counted, s_greedy = structs
    out = []
    elems = [("w8", dict(width=8)), ("w16", dict(width=16)), ("w24", dict(width=24)),
             ("w32", dict(width=32)), ("w64", dict(width=64)),
             ("e8", dict(type_id=enums8[0]["id"])), ("e16", dict(type_id=enums16[0]["id"])),
             ("sst", dict(type_id=s_static["id"])), ("ssz", dict(type_id=s_sized["id"])),
             ("scn", dict(type_id=s_counted["id"]))]
    if quick:
        keep = {"w8", "w16", "w24", "e8", "sst", "ssz"}
        keep.add(rng.choice(["w32", "w64", "e16", "scn"]))
        elems = [e for e in elems if e[0] in keep]
    for ename, ekw in elems:
        dynamic = ename in ("ssz", "scn")
        # static counts
        for n in (0, 1, 3):
            out.append(packet(names.new("Ac"), [scalar("h", 8), array("x", size=n, **ekw), scalar("t", 8)]))
        # count field of several widths
        for cw, extra in ((8, None), (3, 5), (16, None)):
            fs = [count_f("x", cw)] + ([scalar("k", extra)] if extra else []) + [array("x", **ekw), scalar("t", 8)]
            out.append(packet(names.new("An"), fs))
        # size field
        for sw, extra in ((8, None), (5, 3), (16, None)):
            fs = [size_f("x", sw)] + ([scalar("k", extra)] if extra else []) + [array("x", **ekw), scalar("t", 8)]
            out.append(packet(names.new("As"), fs))
        # unsized, last
        out.append(packet(names.new("Au"), [scalar("h", 16), array("x", **ekw)]))
        if padding_ok:
            out.append(packet(names.new("Ap"), [count_f("x", 8), array("x", **ekw), padding(16), scalar("t", 8)]))
            if not dynamic:
                out.append(packet(names.new("Ap"), [size_f("x", 8), array("x", **ekw), padding(12), scalar("t", 8)]))
            out.append(packet(names.new("Ap"), [array("x", size=2, **ekw), padding(20), scalar("t", 8)]))
            # padded and followed by MORE data than the padding: a declared size beyond the
            # padded slice but within the whole buffer must still be refused
            out.append(packet(names.new("Ap"), [size_f("x", 8), array("x", **ekw), padding(8), array("rest", width=8)]))
        if elementsize_ok and dynamic:
            out.append(packet(names.new("Ae"), [elementsize_f("x", 8), count_f("x", 8), array("x", **ekw), scalar("t", 8)]))
            out.append(packet(names.new("Ae"), [elementsize_f("x", 8), size_f("x", 8), array("x", **ekw), scalar("t", 8)]))
            out.append(packet(names.new("Ae"), [elementsize_f("x", 4), scalar("k", 4), array("x", size=2, **ekw)]))
            out.append(packet(names.new("Ae"), [elementsize_f("x", 8), array("x", **ekw)]))
    # greedy elements: only sensible with a static count of 1 or as the last field
    out.append(packet(names.new("Ag"), [scalar("h", 8), array("x", type_id=s_greedy["id"], size=1)]))
    out.append(packet(names.new("Ag"), [size_f("x", 8), array("x", type_id=s_sized["id"]), array("y", width=8)]))
    return out


# --------------------------------------------------------------------------- payloads, optionals, typedefs

def payload_packets(names, rng, enums8):
    out = []
    e = enums8[0]["id"]
    for kind in ("payload", "body"):
        pf = payload() if kind == "payload" else body()
        sid = "_payload_" if kind == "payload" else "_body_"
        out.append(packet(names.new("Pu"), [scalar("a", 8), pf]))
        out.append(packet(names.new("Pt"), [scalar("a", 8), pf, scalar("t", 16)]))
        out.append(packet(names.new("Pt"), [pf, array("t", width=8, size=3), typedef("e", e)]))
        out.append(packet(names.new("Ps"), [size_f(sid, 8), pf, scalar("t", 8)]))
        out.append(packet(names.new("Ps"), [scalar("a", 4), size_f(sid, 12), pf, array("r", width=8)]))
        # fields after an unsized payload that are not whole octets each
        out.append(packet(names.new("Pt"), [scalar("a", 8), pf, scalar("x", 4), scalar("y", 12)]))
        out.append(packet(names.new("Pt"), [pf, scalar("x", 3), scalar("y", 5), scalar("z", 8)]))
        # a padded array after an unsized payload: the trailer is as long as the PADDING
        out.append(packet(names.new("Pt"), [scalar("a", 8), pf, array("tr", width=8, size=2), padding(4), scalar("crc", 8)]))
        out.append(packet(names.new("Pt"), [pf, array("tr", width=16, size=1), padding(5)]))
    out.append(packet(names.new("Pm"), [size_f("_payload_", 8), payload("+2"), scalar("t", 8)]))
    out.append(packet(names.new("Pm"), [scalar("x", 3), size_f("_payload_", 5), payload("+1")]))
    return out


def optional_packets(names, rng, enums8, enums16, s_static, s_sized, by_w=None):
    out = []
    e8, e16 = enums8[0]["id"], enums16[0]["id"]
    out.append(packet(names.new("Op"), [
        scalar("c0", 1), scalar("c1", 1), scalar("c2", 1), scalar("c3", 1), reserved(4),
        scalar("a", 8, cond=constraint("c0", 1)),
        scalar("b", 24, cond=constraint("c1", 0)),
        typedef("e", e8, cond=constraint("c2", 1)),
        typedef("s", s_static["id"], cond=constraint("c3", 1)),
        scalar("t", 8)]))
    out.append(packet(names.new("Op"), [
        scalar("c", 1), reserved(7),
        scalar("a", 16, cond=constraint("c", 1)),
        scalar("b", 8, cond=constraint("c", 0))]))
    out.append(packet(names.new("Op"), [
        scalar("c", 1), scalar("d", 1), reserved(6),
        typedef("s", s_sized["id"], cond=constraint("c", 1)),
        typedef("f", e16, cond=constraint("d", 0)),
        scalar("x", 32, cond=constraint("c", 1)),
        array("rest", width=8)]))
    out.append(struct(names.new("Os"), [
        scalar("c", 1), scalar("k", 7), scalar("v", 64, cond=constraint("c", 1))]))
    # every byte width in the LAST position (nothing after the optional field can hide a
    # guard that asks for more bytes than the field has) and with one byte after it
    for w in (8, 16, 24, 32, 40, 48, 56, 64):
        v = w % 2
        out.append(packet(names.new("Ow"), [scalar("c", 1), reserved(7), scalar("v", w, cond=constraint("c", v))]))
        if w in (24, 40, 56):
            out.append(packet(names.new("Ow"), [scalar("c", 1), reserved(7), scalar("v", w, cond=constraint("c", 1 - v)), scalar("t", 8)]))
    for w in (24, 32):
        for e in (by_w or {}).get(w, [])[:2]:
            out.append(packet(names.new("Oe"), [scalar("c", 1), reserved(7), typedef("e", e["id"], cond=constraint("c", 1))]))
    return out


def typedef_packets(names, rng, enums8, s_static, s_sized, s_counted, customs):
    out = []
    out.append(packet(names.new("Td"), [typedef("s", s_static["id"]), typedef("z", s_sized["id"]), scalar("t", 8)]))
    out.append(packet(names.new("Td"), [scalar("a", 8), typedef("c", s_counted["id"]), typedef("e", enums8[0]["id"])]))
    # a fixed-size struct that does not start the packet, between other static fields
    out.append(packet(names.new("Td"), [scalar("a", 8), typedef("s", s_static["id"]), scalar("t", 8), payload()]))
    out.append(packet(names.new("Td"), [scalar("a", 16), typedef("s", s_static["id"]), typedef("s2", s_static["id"]), scalar("t", 8)]))
    nested = struct(names.new("Sn"), [typedef("inner", s_sized["id"]), scalar("q", 8)])
    out.append(nested)
    out.append(packet(names.new("Td"), [typedef("n", nested["id"]), array("ns", type_id=nested["id"])]))
    for c in customs:
        out.append(packet(names.new("Tc"), [scalar("a", 8), typedef("c", c["id"]), scalar("t", 8)]))
    return out


# --------------------------------------------------------------------------- inheritance trees

def inheritance_trees(names, rng, enums8, s_static=None):
    out = []
    e = enums8[0]
    vtags = [t for t in e["tags"] if "value" in t]
    # 1. scalar constraint, unsized payload
    p = names.new("Ip")
    out.append(packet(p, [scalar("a", 8), scalar("b", 8), payload()]))
    c1 = names.new("Ic")
    out.append(packet(c1, [scalar("x", 16)], parent_id=p, constraints=[constraint("a", 1)]))
    c2 = names.new("Ic")
    out.append(packet(c2, [array("y", width=8)], parent_id=p, constraints=[constraint("a", 2)]))
    alias = names.new("Ia")
    out.append(packet(alias, [payload()], parent_id=p))
    g = names.new("Ig")
    out.append(packet(g, [scalar("z", 8)], parent_id=alias, constraints=[constraint("a", 3), constraint("b", 7)]))
    g2 = names.new("Ig")
    out.append(packet(g2, [scalar("z", 8), scalar("w", 8)], parent_id=alias, constraints=[constraint("a", 3), constraint("b", 8)]))
    # 2. enum constraint, sized payload, field after payload
    p = names.new("Ip")
    out.append(packet(p, [typedef("k", e["id"]), size_f("_payload_", 8), payload(), scalar("crc", 8)]))
    for t in vtags[:2]:
        c = names.new("Ic")
        out.append(packet(c, [scalar("v", 8), array("more", width=16)], parent_id=p,
                          constraints=[constraint("k", tag_id=t["id"])]))
    # 3. children told apart by constant size only
    p = names.new("Ip")
    out.append(packet(p, [scalar("h", 8), payload()]))
    out.append(packet(names.new("Iz"), [scalar("x", 8)], parent_id=p))
    out.append(packet(names.new("Iz"), [scalar("x", 16), scalar("y", 8)], parent_id=p))
    # 3b. told apart by size, one of them OPEN-ENDED (header + payload of its own): its arm
    #     matches every length the fixed-size sibling does not take
    p = names.new("Ip")
    out.append(packet(p, [scalar("kind", 8), payload()]))
    out.append(packet(names.new("Iz"), [scalar("x", 8)], parent_id=p, constraints=[constraint("kind", 1)]))
    out.append(packet(names.new("Iz"), [scalar("seq", 8), scalar("flags", 8), payload()], parent_id=p, constraints=[constraint("kind", 1)]))
    out.append(packet(names.new("Iz"), [scalar("v", 16)], parent_id=p, constraints=[constraint("kind", 2)]))
    # 4. depth 3 with constraints added at several levels, body
    p = names.new("Ip")
    out.append(packet(p, [scalar("a", 4), scalar("b", 4), body()]))
    m = names.new("Im")
    out.append(packet(m, [scalar("c", 8), body()], parent_id=p, constraints=[constraint("a", 5)]))
    l1 = names.new("Il")
    out.append(packet(l1, [scalar("d", 8)], parent_id=m, constraints=[constraint("b", 1), constraint("c", 9)]))
    l2 = names.new("Il")
    out.append(packet(l2, [scalar("d", 16)], parent_id=m, constraints=[constraint("b", 2)]))
    # 5. struct inheritance
    sp = names.new("Isp")
    out.append(struct(sp, [scalar("t", 8), size_f("_payload_", 8), payload()]))
    out.append(struct(names.new("Isc"), [scalar("v", 16)], parent_id=sp, constraints=[constraint("t", 1)]))
    out.append(struct(names.new("Isc"), [array("v", width=8)], parent_id=sp, constraints=[constraint("t", 2)]))
    out.append(packet(names.new("Isu"), [array("items", type_id=sp)]))
    # a struct with a payload / a derived struct as the TYPE OF A FIELD: its size is the
    # size of the whole chain, not of its own fields
    isc = out[-3]["id"]
    out.append(packet(names.new("Ist"), [scalar("h", 8), typedef("one", sp), scalar("t", 8)]))
    out.append(packet(names.new("Ist"), [typedef("kid", isc), scalar("t", 8)]))
    sw = names.new("Isw")
    out.append(struct(sw, [size_f("_payload_", 8), payload(), typedef("kid", isc)]))
    out.append(packet(names.new("Ist"), [size_f("ws", 8), array("ws", type_id=sw)]))
    ip = names.new("Ip")
    out.append(packet(ip, [scalar("k", 8), size_f("_payload_", 8), payload()]))
    out.append(packet(names.new("Ic"), [typedef("kid", isc), typedef("one", sp)], parent_id=ip, constraints=[constraint("k", 1)]))
    # 5b. a statically sized struct with TWO ancestors as a field type / an element type
    gp = names.new("Isg")
    out.append(struct(gp, [scalar("a", 8), size_f("_payload_", 8), payload()]))
    par = names.new("Isg")
    out.append(struct(par, [scalar("b", 8), size_f("_payload_", 8), payload()], parent_id=gp, constraints=[constraint("a", 1)]))
    leaf = names.new("Isg")
    out.append(struct(leaf, [scalar("c", 16)], parent_id=par, constraints=[constraint("b", 2)]))
    out.append(packet(names.new("Ist"), [typedef("l", leaf), scalar("t", 8)]))
    out.append(packet(names.new("Ist"), [size_f("ls", 8), array("ls", type_id=leaf), scalar("t", 8)]))
    out.append(packet(names.new("Ist"), [array("ls", type_id=leaf, size=2), array("rest", width=8)]))
    # 5c. the same with UNSIZED payloads in the ancestors (finding F49)
    gp = names.new("Isu")
    out.append(struct(gp, [scalar("a", 8), payload()]))
    leaf = names.new("Isu")
    out.append(struct(leaf, [scalar("c", 16)], parent_id=gp))
    out.append(packet(names.new("Ist"), [typedef("l", leaf), scalar("t", 8)]))
    # 5d. inherited fields that are not Copy in Rust (arrays, structs)
    if s_static is not None:
        p = names.new("Ip")
        out.append(packet(p, [scalar("k", 8), typedef("s", s_static["id"]), count_f("v", 8), array("v", width=16), payload()]))
        out.append(packet(names.new("Ic"), [scalar("z", 8)], parent_id=p, constraints=[constraint("k", 1)]))
        # ... and seen from a GRANDchild (every level has to hand the array on)
        mid = names.new("Ic")
        out.append(packet(mid, [scalar("sub", 8), payload()], parent_id=p, constraints=[constraint("k", 2)]))
        out.append(packet(names.new("Ig"), [scalar("x", 8)], parent_id=mid, constraints=[constraint("sub", 2)]))
        p = names.new("Ip")
        out.append(packet(p, [scalar("k", 8), array("v", width=8, size=2), typedef("s", s_static["id"])]))
        out.append(packet(names.new("Ic"), [], parent_id=p, constraints=[constraint("k", 2)]))
    # 5e. declarations without any field: decoding succeeds without consuming anything
    emp = names.new("Emp")
    out.append(packet(emp, []))
    out.append(packet(names.new("Emc"), [], parent_id=emp))
    ems = names.new("Ems")
    out.append(struct(ems, []))
    out.append(packet(names.new("Emu"), [scalar("a", 8), typedef("m", ems), scalar("b", 8)]))
    # 5f. size modifiers x inheritance: the modifier belongs to ONE payload only
    fr = names.new("Ip")
    out.append(packet(fr, [scalar("kind", 8), size_f("_payload_", 8), payload("+2")]))
    ms = names.new("Ic")
    out.append(packet(ms, [scalar("seq", 8), size_f("_payload_", 8), payload()], parent_id=fr, constraints=[constraint("kind", 1)]))
    out.append(packet(names.new("Ic"), [scalar("token", 16)], parent_id=ms, constraints=[constraint("seq", 7)]))
    fr = names.new("Ip")
    out.append(packet(fr, [scalar("kind", 8), size_f("_payload_", 8), payload()]))
    ms = names.new("Ic")
    out.append(packet(ms, [scalar("seq", 8), size_f("_payload_", 8), payload("+3")], parent_id=fr, constraints=[constraint("kind", 1)]))
    out.append(packet(names.new("Ic"), [scalar("token", 16)], parent_id=ms, constraints=[constraint("seq", 7)]))
    # 5g. siblings (under an alias) that constrain DIFFERENT fields: the cases of one child
    #     must not leak into the arms of the next
    p = names.new("Ip")
    out.append(packet(p, [scalar("a", 8), scalar("b", 8), scalar("c", 8), payload()]))
    mid = names.new("Ia")
    out.append(packet(mid, [payload()], parent_id=p))
    out.append(packet(names.new("Ig"), [scalar("x", 8)], parent_id=mid, constraints=[constraint("a", 1)]))
    out.append(packet(names.new("Ig"), [scalar("y", 16)], parent_id=mid, constraints=[constraint("b", 2)]))
    out.append(packet(names.new("Ig"), [scalar("z", 24)], parent_id=mid, constraints=[constraint("c", 3)]))
    mid2 = names.new("Ia")
    out.append(packet(mid2, [scalar("m", 8), payload()], parent_id=p, constraints=[constraint("c", 9)]))
    out.append(packet(names.new("Ig"), [scalar("x", 8)], parent_id=mid2, constraints=[constraint("b", 4)]))
    out.append(packet(names.new("Ig"), [scalar("y", 16)], parent_id=mid2, constraints=[constraint("a", 5)]))
    # 5h. a child WITHOUT payload of its own under a parent whose payload has a size modifier
    fr = names.new("Ip")
    out.append(packet(fr, [scalar("kind", 8), size_f("_payload_", 8), payload("+2")]))
    out.append(packet(names.new("Ic"), [scalar("b", 16), array("c", width=8)], parent_id=fr, constraints=[constraint("kind", 1)]))
    out.append(packet(names.new("Ic"), [scalar("d", 8)], parent_id=fr, constraints=[constraint("kind", 2)]))
    # 6. parent without payload, child without fields
    p = names.new("Ip")
    out.append(packet(p, [scalar("a", 8), scalar("b", 8)]))
    out.append(packet(names.new("Ic"), [], parent_id=p, constraints=[constraint("a", 4)]))
    return out


# --------------------------------------------------------------------------- whole modules

def enum_family(names):
    es = enum_shapes(names, widths=(1, 2, 3, 4, 7, 8, 12, 16, 24, 32, 33, 63, 64))
    return es


def codec_module(seed, endianness, prefix="", tier="quick"):
    """One big description exercising the Rust backend's supported constructs."""
    rng = random.Random(seed)
    names = Names(prefix)
    quick = tier == "quick"
    ewidths = (1, 3, 7, 8, 16, 24, 33, 64) if quick else (1, 2, 3, 4, 5, 7, 8, 12, 16, 24, 32, 40, 63, 64)
    enums = enum_shapes(names, widths=ewidths)
    by_w = {}
    for e in enums:
        by_w.setdefault(e["width"], []).append(e)
    enums8, enums16 = by_w[8], by_w[16]
    structs = element_structs(names)
    customs = [custom_field(names.new("Cf"), w) for w in ((8, 24) if quick else (8, 24, 32, 64))]
    decls = list(enums) + list(structs) + customs
    decls += bitfield_packets(names, rng, by_w, 32 if quick else 160, quick=quick)
    decls += array_packets(names, rng, enums8, enums16, structs, quick=quick)
    decls += payload_packets(names, rng, enums8)
    decls += optional_packets(names, rng, enums8, enums16, structs[0], structs[1], by_w)
    decls += typedef_packets(names, rng, enums8, structs[0], structs[1], structs[2], customs)
    decls += inheritance_trees(names, rng, enums8, structs[0])
    decls += composed_packets(names, random.Random(seed * 7919 + 1), by_w, structs, customs, 40 if quick else 90)
    # one packet per enum so that every enum is exercised inside a codec
    for e in enums:
        w = e["width"]
        pad = (8 - w % 8) % 8
        fs = [typedef("e", e["id"])] + ([scalar("p", pad)] if pad else [])
        decls.append(packet(names.new("En"), fs))
    decls += padded_struct_packets(names)
    return file(endianness, decls)


def padded_struct_packets(names):
    """a struct whose size is static only THROUGH the padding of a fixed-count array (its
    schema size is the padded size), used where other declarations consume that size: as an
    element of size- / count-delimited and padded arrays, as a struct-typed field between
    other fields, inside a child of a parent with a sized payload.  (Rust family only: the
    names start with Rx, see langs.static_unsupported.)  Seeded changes C16-r3 = C02-r4 = C05-r4."""
    slot = struct(names.new("RxSlot"), [scalar("id", 8), array("a", width=16, size=2), padding(8)])
    slot1 = struct(names.new("RxSlot"), [array("a", width=8, size=3), padding(4)])
    out = [slot, slot1]
    out.append(packet(names.new("RxT"), [size_f("x", 8), array("x", type_id=slot1["id"]), scalar("t", 8)]))
    out.append(packet(names.new("RxT"), [count_f("x", 8), array("x", type_id=slot["id"]), scalar("t", 8)]))
    out.append(packet(names.new("RxT"), [size_f("x", 8), array("x", type_id=slot["id"]), padding(20), scalar("t", 8)]))
    out.append(packet(names.new("RxF"), [scalar("h", 8), typedef("s", slot["id"]), scalar("t", 8)]))
    par = packet(names.new("RxP"), [scalar("k", 4), size_f("_payload_", 4), payload()])
    out.append(par)
    out.append(packet(names.new("RxC"), [typedef("a", slot1["id"]), typedef("b", slot1["id"])], parent_id=par["id"],
                      constraints=[constraint("k", 1)]))
    # chunks made ONLY of reserved fields, several of them (a generator that special-cases
    # "nothing to extract" must still guard the length): last, first, in the middle, wide
    out.append(packet(names.new("RxR"), [scalar("v", 8), reserved(3), reserved(5)]))
    out.append(packet(names.new("RxR"), [reserved(4), reserved(4), scalar("t", 8)]))
    out.append(packet(names.new("RxR"), [scalar("a", 16), reserved(7), reserved(9), reserved(8), scalar("t", 8)]))
    out.append(struct(names.new("RxR"), [reserved(1), reserved(31)]))
    return out


# --------------------------------------------------------------------------- random composition

class Composer:
    """Random packets composed from a palette of byte-aligned SEGMENTS (bit-field groups,
    arrays of every shape with and without padding, struct / custom typedefs, optional
    fields, sized / unsized payloads with and without size modifiers) and random
    inheritance over them (constraints at several levels, children with payloads of
    their own).  The hand-written shapes above enumerate features one at a time; this
    exercises their INTERACTIONS.  Everything stays inside what the Rust backend supports
    and inside the listed-findings-free zone (no _elementsize_, counts below 56 bits)."""

    def __init__(self, names, rng, by_w, structs, customs):
        self.names, self.rng, self.by_w = names, rng, by_w
        self.s_static, self.s_sized, self.s_counted, _ = structs
        self.customs = customs
        self.k = 0

    def fid(self, stem="f"):
        self.k += 1
        return f"{stem}{self.k}"

    # ---- segments: each returns (fields, static?) and is a whole number of octets
    def seg_bits(self):
        rng = self.rng
        W = rng.choice([8, 8, 16, 16, 24, 32, 40, 64])
        fs, cons = [], []
        for w in partitions_of(W, rng, 4):
            kind = rng.choice(["scalar", "scalar", "enum", "fixed", "reserved"])
            cands = self.by_w.get(w)
            if kind == "enum" and cands:
                e = rng.choice(cands)
                i = self.fid("e")
                fs.append(typedef(i, e["id"]))
                vt = [t for t in e["tags"] if "value" in t]
                if vt:
                    cons.append(("enum", i, [t["id"] for t in vt]))
            elif kind == "fixed":
                fs.append(fixed_s(w, rng.randrange(1 << w)))
            elif kind == "reserved":
                fs.append(reserved(w))
            else:
                i = self.fid("s")
                fs.append(scalar(i, w))
                cons.append(("scalar", i, list(range(min(1 << w, 6))) + ([(1 << w) - 1] if w > 3 else [])))
        return fs, True, cons

    def elem(self, static_only=False):
        rng = self.rng
        opts = [dict(width=8), dict(width=16), dict(width=24), dict(width=32),
                dict(type_id=self.by_w[8][0]["id"]), dict(type_id=self.by_w[16][0]["id"]),
                dict(type_id=self.s_static["id"])]
        if not static_only:
            opts += [dict(type_id=self.s_sized["id"]), dict(type_id=self.s_counted["id"])]
        return rng.choice(opts)

    def seg_array_dyn(self):
        rng = self.rng
        i = self.fid("a")
        ekw = self.elem()
        dyn = ekw.get("type_id") in (self.s_sized["id"], self.s_counted["id"])
        head = rng.choice(["size8", "count8", "size16", "count4", "size12"])
        if head == "size8":
            fs = [size_f(i, 8)]
        elif head == "count8":
            fs = [count_f(i, 8)]
        elif head == "size16":
            fs = [size_f(i, 16)]
        elif head == "count4":
            fs = [count_f(i, 4), scalar(self.fid("s"), 4)]
        else:
            fs = [scalar(self.fid("s"), 4), size_f(i, 12)]
        fs.append(array(i, **ekw))
        if rng.random() < 0.3 and not dyn:
            fs.append(padding(rng.choice([16, 24, 40])))
        return fs, False, []

    def seg_array_static(self):
        rng = self.rng
        i = self.fid("a")
        n = rng.choice([1, 1, 2, 3])
        ekw = self.elem(static_only=True)
        fs = [array(i, size=n, **ekw)]
        if rng.random() < 0.4:
            fs.append(padding(rng.choice([16, 24])))
        return fs, True, []

    def seg_struct(self):
        rng = self.rng
        t = rng.choice([self.s_static, self.s_static, self.s_sized, self.s_counted])
        return [typedef(self.fid("t"), t["id"])], t is self.s_static, []

    def seg_custom(self):
        return [typedef(self.fid("c"), self.rng.choice(self.customs)["id"])], True, []

    def seg_optional(self):
        rng = self.rng
        flags = [self.fid("c") for _ in range(rng.choice([1, 2]))]
        fs = [scalar(c, 1) for c in flags] + [reserved(8 - len(flags))]
        for _ in range(rng.choice([1, 2, 3])):
            c = rng.choice(flags)
            v = rng.choice([0, 1])
            k = rng.choice(["scalar", "scalar", "enum", "struct"])
            if k == "scalar":
                fs.append(scalar(self.fid("o"), rng.choice([8, 16, 24, 32, 40, 64]), cond=constraint(c, v)))
            elif k == "enum":
                e = rng.choice(self.by_w[rng.choice([8, 16, 24])])
                fs.append(typedef(self.fid("o"), e["id"], cond=constraint(c, v)))
            else:
                fs.append(typedef(self.fid("o"), rng.choice([self.s_static, self.s_sized])["id"], cond=constraint(c, v)))
        return fs, False, []

    def payload_seg(self, kind=None):
        """-> (fields before, the payload field, sized?)"""
        rng = self.rng
        pf_kind = kind or rng.choice(["payload", "body"])
        sid = "_payload_" if pf_kind == "payload" else "_body_"
        how = rng.choice(["unsized", "unsized", "size8", "size16", "size5", "size8m"])
        mod = None
        if how == "unsized":
            pre = []
        elif how == "size8":
            pre = [size_f(sid, 8)]
        elif how == "size16":
            pre = [size_f(sid, 16)]
        elif how == "size5":
            pre = [scalar(self.fid("s"), 3), size_f(sid, 5)]
        else:
            pre = [size_f(sid, 8)]
            mod = "+%d" % rng.choice([1, 2, 3])
        pf = (payload(mod) if mod else payload()) if pf_kind == "payload" else body()
        if pf_kind == "body" and mod:
            pf = body()
        return pre, pf, how != "unsized"

    def fields(self, with_payload, n_segs=None):
        """a field list: random segments, at most one payload; after an UNSIZED payload only
        static segments follow"""
        rng = self.rng
        n = n_segs if n_segs is not None else rng.choice([1, 2, 2, 3, 4])
        dyn_makers = [self.seg_bits, self.seg_bits, self.seg_array_dyn, self.seg_array_static, self.seg_struct,
                      self.seg_optional, self.seg_custom]
        static_makers = [self.seg_bits, self.seg_array_static, self.seg_custom]
        pos = rng.randrange(n + 1) if with_payload else None
        out, cons, after_unsized = [], [], False
        for k in range(n + 1):
            if with_payload and k == pos:
                pre, pf, sized = self.payload_seg()
                out += pre + [pf]
                after_unsized = not sized
                continue
            if k == n and not (with_payload and pos == n):
                break
            if k >= n:
                break
            mk = rng.choice(static_makers if after_unsized else dyn_makers)
            fs, static, cs = mk()
            if after_unsized and not static:
                fs, static, cs = self.seg_bits()
            out += fs
            cons += cs
        if not with_payload and rng.random() < 0.15 and not after_unsized:
            out.append(array(self.fid("z"), **self.elem()))      # unsized array in the last position
        return out, cons

    def tree(self, depth=0):
        """one root with a random subtree of children"""
        rng = self.rng
        out = []
        fs, cons = self.fields(with_payload=rng.random() < (0.75 if depth == 0 else 0.5))
        root = packet(self.names.new("Rp"), fs)
        out.append(root)
        self.children(root, cons, out, 1)
        return out

    def children(self, parent, cons, out, depth):
        """siblings are told apart by distinct values of ONE discriminating field (the
        backend refuses children it cannot disambiguate); further constraints are random"""
        rng = self.rng
        if not any(f["kind"] in ("payload_field", "body_field") for f in parent["fields"]) or depth > 3:
            return
        want = rng.choice([0, 1, 1, 2]) if depth > 1 else rng.choice([1, 2, 3])
        disc = rng.choice(cons) if cons else None
        if disc is None:
            want = min(want, 1)
        else:
            want = min(want, len(disc[2]))
        vals = rng.sample(disc[2], want) if disc else []
        for j in range(want):
            mine = []
            if disc:
                mine.append(constraint(disc[1], vals[j]) if disc[0] == "scalar" else constraint(disc[1], tag_id=vals[j]))
            others = [c for c in cons if c is not disc]
            rng.shuffle(others)
            for kind, i, dom in others[: rng.choice([0, 0, 1, 2])]:
                v = rng.choice(dom)
                mine.append(constraint(i, v) if kind == "scalar" else constraint(i, tag_id=v))
            rng.shuffle(mine)
            used = {c["id"] for c in mine}
            rest = [c for c in cons if c[1] not in used]
            fs, own = self.fields(with_payload=rng.random() < 0.5, n_segs=rng.choice([0, 1, 2]))
            ch = packet(self.names.new("Rc"), fs, parent_id=parent["id"], constraints=mine)
            out.append(ch)
            self.children(ch, rest + own, out, depth + 1)


def composed_packets(names, rng, by_w, structs, customs, n_trees):
    c = Composer(names, rng, by_w, structs, customs)
    out = []
    for _ in range(n_trees):
        out += c.tree()
    return out


def enum_module(endianness, tier="quick"):
    """enums of the widths whose Rust conversion always has a catch-all arm (not 8/16/32/64)
    and one packet per enum, in a module of their own: a generator change that makes the
    match of a ladder-width enum non-exhaustive stops the big module from building, this
    one still runs and shows the conversion that changed"""
    names = Names("")
    widths = (2, 3, 4, 5, 7, 12, 24, 33, 63) if tier == "quick" else (1, 2, 3, 4, 5, 6, 7, 9, 12, 15, 17, 24, 31, 33, 40, 48, 63)
    enums = enum_shapes(names, widths=widths)
    decls = list(enums)
    for e in enums:
        w = e["width"]
        pad = (8 - w % 8) % 8
        decls.append(packet(names.new("En"), [typedef("e", e["id"])] + ([scalar("p", pad)] if pad else [])))
    return file(endianness, decls)


# --------------------------------------------------------------------------- values

class TypeEnv:
    def __init__(self, f):
        self.file = f
        self.decls = {d["id"]: d for d in f["declarations"] if "id" in d}

    def parents(self, d):
        out = []
        while d.get("parent_id"):
            d = self.decls[d["parent_id"]]
            out.append(d)
        return out

    def chain(self, d):
        return [d] + self.parents(d)

    def constraints(self, d):
        return [c for x in self.chain(d) for c in x.get("constraints", [])]

    def flag_ids(self, d):
        return {f["cond"]["id"] for f in d.get("fields", []) if f.get("cond")}

    def data_fields(self, d):
        cs = {c["id"] for c in self.constraints(d)}
        out = []
        for x in self.chain(d):
            flags = self.flag_ids(x)
            for f in x.get("fields", []):
                if "id" in f and f["kind"] in ("scalar_field", "typedef_field", "array_field"):
                    if f["id"] in flags or f["id"] in cs:
                        continue
                    out.append((x, f))
        return out

    def has_payload(self, d):
        return any(f["kind"] in ("payload_field", "body_field") for f in d.get("fields", []))

    def children(self, d):
        return [x for x in self.file["declarations"] if x.get("parent_id") == d["id"]]

    def codec_types(self):
        return [d for d in self.file["declarations"]
                if d["kind"] in ("packet_declaration", "struct_declaration")]


def scalar_values(w, rng, wide=False):
    mx = (1 << w) - 1
    vals = {0, 1 if mx >= 1 else 0, mx, max(0, mx - 1), 1 << (w - 1) if w >= 1 else 0, rng.randrange(mx + 1)}
    if wide:
        b = backing(w)
        if b and b > w:
            vals |= {mx + 1, (1 << b) - 1}
    return sorted(vals)


def enum_values(e, rng, valid_only=True):
    w = e["width"]
    mx = (1 << w) - 1
    vals = set()
    is_open = any("value" not in t and "range" not in t for t in e["tags"])
    for t in e["tags"]:
        if "value" in t:
            vals.add(t["value"])
        elif "range" in t:
            lo, hi = t["range"]["start"], t["range"]["end"]
            vals |= {lo, hi, (lo + hi) // 2}
            for x in t.get("tags", []):
                vals.add(x["value"])
    if is_open:
        vals |= {0, mx, rng.randrange(mx + 1)}
    return sorted(vals)


def gen_value(env, d, rng, mode="mid", depth=0):
    """a value of declaration d (leaf view). mode: 'min' | 'max' | 'mid' (random boundaries)
    | 'wide' (may leave the declared widths: C05)"""
    obj = {}
    for owner, f in env.data_fields(d):
        obj[f["id"]] = gen_field_value(env, owner, f, rng, mode, depth)
    if env.has_payload(d):
        n = {"min": 0, "max": 5}.get(mode, rng.choice([0, 1, 2, 7]))
        obj["payload"] = [rng.randrange(256) for _ in range(n)]
    return obj


def pick(vals, rng, mode):
    if mode == "min":
        return vals[0]
    if mode == "max":
        return vals[-1] if mode != "wide" else vals[-1]
    return rng.choice(vals)


def gen_elem(env, f, rng, mode, depth):
    if f.get("width") is not None:
        w = f["width"]
        vals = scalar_values(w, rng, wide=(mode == "wide"))
        if mode == "max":
            return (1 << w) - 1
        return pick(vals, rng, mode)
    t = env.decls[f["type_id"]]
    if t["kind"] == "enum_declaration":
        return pick(enum_values(t, rng), rng, mode)
    if t["kind"] == "custom_field_declaration":
        return pick(scalar_values(t["width"], rng), rng, "mid" if mode == "wide" else mode)
    return gen_value(env, t, rng, mode if mode != "wide" else "mid", depth + 1)


def gen_field_value(env, owner, f, rng, mode, depth):
    if f.get("cond"):
        if mode == "min" or (mode not in ("max",) and rng.random() < 0.4):
            return None
    k = f["kind"]
    if k == "scalar_field":
        return gen_elem(env, f, rng, mode, depth)
    if k == "typedef_field":
        return gen_elem(env, f, rng, mode, depth)
    if k == "array_field":
        if f.get("size") is not None:
            n = f["size"]
        else:
            n = {"min": 0, "max": 4}.get(mode, rng.choice([0, 1, 2, 3]))
            if depth > 1:
                n = min(n, 2)
        return [gen_elem(env, f, rng, mode, depth) for _ in range(n)]
    raise ValueError(k)


def gen_values(env, d, rng, n):
    vals = [gen_value(env, d, rng, "min"), gen_value(env, d, rng, "max")]
    for _ in range(max(0, n - 2)):
        vals.append(gen_value(env, d, rng, "mid"))
    return vals


def gen_wide_values(env, d, rng, n):
    """values of the Rust types that may violate declared widths / expressible sizes (C05)"""
    out = []
    for _ in range(n):
        v = gen_value(env, d, rng, "wide")
        # stretch one array beyond what its size/count field or padding can express
        arrs = [(o, f) for o, f in env.data_fields(d) if f["kind"] == "array_field" and f.get("size") is None]
        if arrs and rng.random() < 0.5:
            o, f = rng.choice(arrs)
            lim = None
            for g in o["fields"]:
                if g["kind"] in ("size_field", "count_field") and g.get("field_id") == f["id"]:
                    lim = (1 << g["width"])
            if lim is not None and lim <= 300:
                k = lim + rng.choice([-1, 0, 1])
                v[f["id"]] = [gen_elem(env, f, rng, "min", 2) for _ in range(max(0, k))]
        out.append(v)
    return out


# --------------------------------------------------------------------------- byte strings

def mutate_bytes(hexs, rng, n_random=4):
    """from one valid encoding: all prefixes, appended bytes, byte-level boundary
    mutations, a few random flips"""
    b = bytes.fromhex(hexs)
    out = []
    for i in range(len(b)):
        out.append(b[:i])
    out.append(b + b"\x00")
    out.append(b + bytes([rng.randrange(256), rng.randrange(256)]))
    for i in range(len(b)):
        for v in (0x00, 0x01, 0x7f, 0x80, 0xfe, 0xff):
            if b[i] != v and rng.random() < 0.5:
                out.append(b[:i] + bytes([v]) + b[i + 1:])
    for _ in range(n_random):
        if b:
            i = rng.randrange(len(b))
            out.append(b[:i] + bytes([b[i] ^ (1 << rng.randrange(8))]) + b[i + 1:])
    # length-aware: a leading octet is often a size / count.  Make it claim exactly, one
    # less and one more than what follows, and slightly more than it did -- both as is and
    # with plenty of data appended (a guard against the wrong slice only shows when the
    # buffer as a whole is long enough)
    ext = b + bytes(rng.randrange(256) for _ in range(16))
    for base in (b, ext):
        for i in range(min(3, len(b))):
            rem = len(base) - i - 1
            for v in {rem - 1, rem, rem + 1, b[i] + 1, b[i] + 2, b[i] + 5, b[i] - 1}:
                if 0 <= v <= 255 and v != base[i] and rng.random() < 0.6:
                    out.append(base[:i] + bytes([v]) + base[i + 1:])
    return [x.hex() for x in out]


def random_bytes(rng, n, maxlen=12):
    return [bytes(rng.randrange(256) for _ in range(rng.randrange(maxlen + 1))).hex() for _ in range(n)]
