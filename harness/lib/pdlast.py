"""PDL descriptions as Python data in the exact shape of pdlc's JSON AST
(`pdlc --output-format json`, serde of pdl-compiler/src/ast.rs, `loc` optional),
with two printers: PDL concrete syntax (for the implementation) and s-expressions
(for the Coq oracle, see coq/theories/Lang/AstSexp.v)."""

import json

# --------------------------------------------------------------------------- builders


def constraint(id, value=None, tag_id=None):
    return {"kind": "constraint", "id": id, "value": value, "tag_id": tag_id}


def scalar(id, width, cond=None):
    return {"kind": "scalar_field", "id": id, "width": width, "cond": cond}


def typedef(id, type_id, cond=None):
    return {"kind": "typedef_field", "id": id, "type_id": type_id, "cond": cond}


def array(id, width=None, type_id=None, size=None, size_modifier=None):
    return {"kind": "array_field", "id": id, "width": width, "type_id": type_id,
            "size_modifier": size_modifier, "size": size, "cond": None}


def size_f(field_id, width):
    return {"kind": "size_field", "field_id": field_id, "width": width, "cond": None}


def count_f(field_id, width):
    return {"kind": "count_field", "field_id": field_id, "width": width, "cond": None}


def elementsize_f(field_id, width):
    return {"kind": "elementsize_field", "field_id": field_id, "width": width, "cond": None}


def payload(size_modifier=None):
    return {"kind": "payload_field", "size_modifier": size_modifier, "cond": None}


def body():
    return {"kind": "body_field", "cond": None}


def fixed_s(width, value):
    return {"kind": "fixed_field", "width": width, "value": value, "cond": None}


def fixed_e(enum_id, tag_id):
    return {"kind": "fixed_field", "enum_id": enum_id, "tag_id": tag_id, "cond": None}


def reserved(width):
    return {"kind": "reserved_field", "width": width, "cond": None}


def padding(size):
    return {"kind": "padding_field", "size": size, "cond": None}


def group_f(group_id, constraints=()):
    return {"kind": "group_field", "group_id": group_id, "constraints": list(constraints), "cond": None}


def tag_v(id, value):
    return {"kind": "tag", "id": id, "value": value}


def tag_r(id, lo, hi, tags=()):
    return {"kind": "tag", "id": id, "range": {"start": lo, "end": hi}, "tags": list(tags)}


def tag_o(id):
    return {"kind": "tag", "id": id}


def enum(id, width, tags):
    return {"kind": "enum_declaration", "id": id, "tags": list(tags), "width": width}


def packet(id, fields, parent_id=None, constraints=()):
    return {"kind": "packet_declaration", "id": id, "constraints": list(constraints),
            "fields": list(fields), "parent_id": parent_id}


def struct(id, fields, parent_id=None, constraints=()):
    return {"kind": "struct_declaration", "id": id, "constraints": list(constraints),
            "fields": list(fields), "parent_id": parent_id}


def group(id, fields):
    return {"kind": "group_declaration", "id": id, "fields": list(fields)}


def custom_field(id, width=None, function="f"):
    return {"kind": "custom_field_declaration", "id": id, "width": width, "function": function}


def checksum(id, width, function="f"):
    return {"kind": "checksum_declaration", "id": id, "function": function, "width": width}


def file(endianness, declarations):
    assert endianness in ("little_endian", "big_endian")
    return {"version": "1,0", "file": 0, "comments": [],
            "endianness": {"kind": "endianness_declaration", "value": endianness},
            "declarations": list(declarations)}


def strip_loc(x):
    if isinstance(x, dict):
        return {k: strip_loc(v) for k, v in x.items() if k != "loc"}
    if isinstance(x, list):
        return [strip_loc(v) for v in x]
    return x


# --------------------------------------------------------------------------- PDL text


def _int(n, style=None):
    return str(n)


def _constraint_text(c):
    if c.get("tag_id") is not None:
        return f"{c['id']} = {c['tag_id']}"
    return f"{c['id']} = {c['value']}"


def field_text(f):
    k = f["kind"]
    if k == "scalar_field":
        t = f"{f['id']} : {f['width']}"
    elif k == "typedef_field":
        t = f"{f['id']} : {f['type_id']}"
    elif k == "array_field":
        elem = str(f["width"]) if f.get("width") is not None else f["type_id"]
        if f.get("size") is not None:
            dim = str(f["size"])
        elif f.get("size_modifier") is not None:
            dim = str(f["size_modifier"])
        else:
            dim = ""
        t = f"{f['id']} : {elem}[{dim}]"
    elif k == "size_field":
        t = f"_size_({f['field_id']}) : {f['width']}"
    elif k == "count_field":
        t = f"_count_({f['field_id']}) : {f['width']}"
    elif k == "elementsize_field":
        t = f"_elementsize_({f['field_id']}) : {f['width']}"
    elif k == "payload_field":
        t = "_payload_" + (f" : [{f['size_modifier']}]" if f.get("size_modifier") else "")
    elif k == "body_field":
        t = "_body_"
    elif k == "fixed_field":
        if "enum_id" in f:
            t = f"_fixed_ = {f['tag_id']} : {f['enum_id']}"
        else:
            t = f"_fixed_ = {f['value']} : {f['width']}"
    elif k == "reserved_field":
        t = f"_reserved_ : {f['width']}"
    elif k == "padding_field":
        t = f"_padding_[{f['size']}]"
    elif k == "checksum_field":
        t = f"_checksum_start_({f['field_id']})"
    elif k == "group_field":
        t = f["group_id"]
        if f.get("constraints"):
            t += " { " + ", ".join(_constraint_text(c) for c in f["constraints"]) + " }"
    elif k == "flag_field":
        t = f"{f['id']} : 1"
    else:
        raise ValueError(k)
    if f.get("cond"):
        t += " if " + _constraint_text(f["cond"])
    return t


def tag_text(t):
    if "range" in t:
        s = f"{t['id']} = {t['range']['start']}..{t['range']['end']}"
        if t.get("tags"):
            s += " { " + ", ".join(tag_text(x) for x in t["tags"]) + " }"
        return s
    if "value" in t:
        return f"{t['id']} = {t['value']}"
    return f"{t['id']} = .."


def decl_text(d):
    k = d["kind"]
    if k == "enum_declaration":
        return f"enum {d['id']} : {d['width']} {{\n  " + ",\n  ".join(tag_text(t) for t in d["tags"]) + "\n}"
    if k in ("packet_declaration", "struct_declaration"):
        kw = "packet" if k.startswith("packet") else "struct"
        head = f"{kw} {d['id']}"
        if d.get("parent_id"):
            head += f" : {d['parent_id']}"
            if d.get("constraints"):
                head += " (" + ", ".join(_constraint_text(c) for c in d["constraints"]) + ")"
        if not d["fields"]:
            return head + " {}"
        return head + " {\n  " + ",\n  ".join(field_text(f) for f in d["fields"]) + "\n}"
    if k == "group_declaration":
        return f"group {d['id']} {{\n  " + ",\n  ".join(field_text(f) for f in d["fields"]) + "\n}"
    if k == "custom_field_declaration":
        w = f" : {d['width']}" if d.get("width") is not None else ""
        return f"custom_field {d['id']}{w} \"{d['function']}\""
    if k == "checksum_declaration":
        return f"checksum {d['id']} : {d['width']} \"{d['function']}\""
    if k == "test_declaration":
        return f"test {d['type_id']} {{ \"\" }}"
    raise ValueError(k)


def to_pdl(f):
    e = f["endianness"]["value"]
    return f"{e}_packets\n" + "\n".join(decl_text(d) for d in f["declarations"]) + "\n"


# --------------------------------------------------------------------------- s-expressions


def _o(x):
    return "-" if x is None else str(x)


def _mod(x):
    if x is None:
        return "-"
    return str(int(str(x).lstrip("+")))


def _q(s):
    return '"' + s.replace("\\", "\\\\").replace('"', '\\"').replace("\n", "\\n").replace("\t", "\\t").replace("\r", "\\r") + '"'


def constraint_sexp(c):
    return f"(c {c['id']} {_o(c.get('value'))} {_o(c.get('tag_id'))})"


def field_sexp(f):
    k = f["kind"]
    if k == "scalar_field":
        d = f"(scalar {f['id']} {f['width']})"
    elif k == "typedef_field":
        d = f"(typedef {f['id']} {f['type_id']})"
    elif k == "array_field":
        d = f"(array {f['id']} {_o(f.get('width'))} {_o(f.get('type_id'))} {_mod(f.get('size_modifier'))} {_o(f.get('size'))})"
    elif k == "size_field":
        d = f"(size {f['field_id']} {f['width']})"
    elif k == "count_field":
        d = f"(count {f['field_id']} {f['width']})"
    elif k == "elementsize_field":
        d = f"(elementsize {f['field_id']} {f['width']})"
    elif k == "payload_field":
        d = f"(payload {_mod(f.get('size_modifier'))})"
    elif k == "body_field":
        d = "(body)"
    elif k == "fixed_field":
        if "enum_id" in f:
            d = f"(fixed_e {f['enum_id']} {f['tag_id']})"
        else:
            d = f"(fixed_s {f['width']} {f['value']})"
    elif k == "reserved_field":
        d = f"(reserved {f['width']})"
    elif k == "padding_field":
        d = f"(padding {f['size']})"
    elif k == "checksum_field":
        d = f"(checksum_f {f['field_id']})"
    elif k == "group_field":
        d = f"(group_f {f['group_id']} ({' '.join(constraint_sexp(c) for c in f.get('constraints', []))}))"
    elif k == "flag_field":
        d = f"(flag {f['id']} ({' '.join('(%s %d)' % (a, b) for a, b in f['optional_field_ids'])}))"
    else:
        raise ValueError(k)
    c = constraint_sexp(f["cond"]) if f.get("cond") else "-"
    return f"(f {d} {c})"


def tag_sexp(t):
    if "range" in t:
        inner = " ".join(f"({x['id']} {x['value']})" for x in t.get("tags", []))
        return f"(r {t['id']} {t['range']['start']} {t['range']['end']} ({inner}))"
    if "value" in t:
        return f"(v {t['id']} {t['value']})"
    return f"(o {t['id']})"


def decl_sexp(d):
    k = d["kind"]
    if k == "enum_declaration":
        return f"(enum {d['id']} {d['width']} ({' '.join(tag_sexp(t) for t in d['tags'])}))"
    if k in ("packet_declaration", "struct_declaration"):
        kw = "packet" if k.startswith("packet") else "struct"
        cs = " ".join(constraint_sexp(c) for c in d.get("constraints", []))
        fs = " ".join(field_sexp(f) for f in d["fields"])
        return f"({kw} {d['id']} {_o(d.get('parent_id'))} ({cs}) ({fs}))"
    if k == "group_declaration":
        return f"(group {d['id']} ({' '.join(field_sexp(f) for f in d['fields'])}))"
    if k == "custom_field_declaration":
        return f"(custom {d['id']} {_o(d.get('width'))} {_q(d.get('function', ''))})"
    if k == "checksum_declaration":
        return f"(checksum {d['id']} {d['width']} {_q(d.get('function', ''))})"
    if k == "test_declaration":
        return f"(test {d['type_id']})"
    raise ValueError(k)


def to_sexp(f):
    e = "little" if f["endianness"]["value"] == "little_endian" else "big"
    return f"(file {e} " + " ".join(decl_sexp(d) for d in f["declarations"]) + ")"


def value_sexp(v):
    """JSON value -> s-expression understood by Sexp.value_of_sexp."""
    if v is None:
        return "null"
    if isinstance(v, bool):
        return "1" if v else "0"
    if isinstance(v, int):
        return str(v)
    if isinstance(v, str):       # big integers travel as strings
        return str(int(v))
    if isinstance(v, list):
        return "(l " + " ".join(value_sexp(x) for x in v) + ")"
    if isinstance(v, dict):
        return "(o " + " ".join(f"({k} {value_sexp(x)})" for k, x in v.items()) + ")"
    raise ValueError(v)


def norm_value(v):
    """Canonical form of a value JSON for comparison: big ints given as strings -> int."""
    if isinstance(v, str):
        try:
            return int(v)
        except ValueError:
            return v
    if isinstance(v, list):
        return [norm_value(x) for x in v]
    if isinstance(v, dict):
        return {k: norm_value(x) for k, x in v.items()}
    return v
