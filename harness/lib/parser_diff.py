"""Differential test of the Coq parser model (coq/theories/Front/) against the real
parser (pdl_compiler::parser::parse_inline through the in-process driver).

    python3 harness/lib/parser_diff.py [--seed N] [--n COUNT] [--no-build] [--dump DIR]

Everything random comes from ONE `random.Random(seed)`.  Text sources:
  (a) ASTs (gen.codec_module and hand-made / random ones covering every declaration
      and field kind) rendered with randomized layout;
  (b) near misses: token / character mutations of (a), hand-written edge cases, soup;
  (c) every .pdl file of /repo and the code blocks of /repo/doc/reference.md.
Compared: the verdict; on success the AST (pdlast.to_sexp of the implementation's JSON
without locs against the model's s-expression), every location record (offset, line,
column of start and end, in traversal order) and the comments (range, text length).

The module is also the library of the parser checks:
    prepare()                      regenerate Grammar_gen.v, build oracle + driver
    model_parse(texts)             {id: (status, rest)}
    impl_parse(binary, texts)      {id: (status, payload)}
    compare(text, impl, model)     None or a description of the disagreement
"""
import argparse
import collections
import json
import os
import pathlib
import random
import re
import subprocess
import sys

HERE = pathlib.Path(__file__).resolve().parent
sys.path.insert(0, str(HERE))

import pdlast  # noqa: E402
import drv  # noqa: E402

ROOT = HERE.parents[1]
CACHE = ROOT / ".cache"
REPO = pathlib.Path("/repo")
PARSER_RS = REPO / "pdl-compiler" / "src" / "parser.rs"
GRAMMAR_V = ROOT / "coq" / "theories" / "Front" / "Grammar_gen.v"
ORACLE = CACHE / "oracle" / "oracle"


# ----------------------------------------------------------------------------- builds


def regen_grammar():
    """run the translator on the CURRENT parser.rs; returns True when the Coq grammar changed"""
    before = GRAMMAR_V.read_bytes() if GRAMMAR_V.exists() else None
    p = subprocess.run([sys.executable, str(ROOT / "harness" / "tools" / "pest2coq.py"), str(PARSER_RS), str(GRAMMAR_V)],
                       capture_output=True, text=True)
    if p.returncode != 0:
        raise RuntimeError("pest2coq failed: " + p.stderr[-2000:])
    return before != GRAMMAR_V.read_bytes()


def prepare(build=True):
    """-> (oracle path, driver binary)"""
    if build:
        import common
        regen_grammar()
        oracle = common.build_oracle()
    else:
        oracle = ORACLE
    import common as _c
    with _c.locked("cargo-drv"):
        binary = drv.build(CACHE / "drv", CACHE / "target-drv")
    return oracle, binary


# ----------------------------------------------------------------------------- running both sides


def model_requests(oracle, lines, timeout=1800):
    p = subprocess.run(["/bin/sh", "-c", f"ulimit -s unlimited 2>/dev/null; exec {oracle}"],
                       input=("\n".join(lines) + "\n").encode("utf-8"), capture_output=True, timeout=timeout)
    out = {}
    for ln in p.stdout.split(b"\n"):
        if not ln:
            continue
        parts = ln.decode("utf-8", errors="replace").split("\t", 2)
        if len(parts) == 3:
            out[parts[0]] = (parts[1], parts[2])
    if p.returncode != 0:
        out["__crash__"] = ("crash", "%d %s" % (p.returncode, p.stderr.decode(errors="replace")[-500:]))
    return out


def model_parse(texts, oracle=ORACLE, op="parse"):
    """texts: list of (id, text) -> {id: (status, rest)}"""
    return model_requests(oracle, ["(%s %s %s)" % (op, i, pdlast._q(t)) for i, t in texts])


def impl_parse(binary, texts):
    return drv.run(binary, [(i, "parse", t) for i, t in texts], timeout_s=60)


# ----------------------------------------------------------------------------- comparison


def _rec(kind, loc):
    s, e = loc["start"], loc["end"]
    return "%s:%d-%d:%d:%d:%d:%d" % (kind, s["offset"], e["offset"], s["line"], s["column"], e["line"], e["column"])


def impl_locs(ast):
    """location records of the implementation's JSON in the model's traversal order"""
    out = [_rec("endianness", ast["endianness"]["loc"])]
    for d in ast["declarations"]:
        out.append(_rec("decl", d["loc"]))
        for c in d.get("constraints", []):
            out.append(_rec("constraint", c["loc"]))
        for f in d.get("fields", []):
            out.append(_rec("field", f["loc"]))
            if f.get("cond"):
                out.append(_rec("cond", f["cond"]["loc"]))
            for c in f.get("constraints", []):
                out.append(_rec("gconstraint", c["loc"]))
        for t in d.get("tags", []):
            out.append(_rec("tag", t["loc"]))
            for s in t.get("tags", []):
                out.append(_rec("subtag", s["loc"]))
        for tc in d.get("test_cases", []):
            out.append(_rec("test_case", tc["loc"]))
    for c in ast["comments"]:
        out.append(_rec("comment", c["loc"]) + ":%d" % len(c["text"].encode("utf-8")))
    return out


def impl_verdict(reply):
    """-> (status, detail) in the model's vocabulary"""
    st, payload = reply
    if st == "ok":
        return "ok", payload["ast"]
    if st == "err":
        msg = payload.get("message", "")
        m = re.fullmatch(r"cannot convert '(.*)' to usize", msg, re.S)
        if m:
            return "converr", m.group(1)
        if msg.startswith("failed to parse input file"):
            return "err", ""
        return "walkerr", msg
    if st == "panic":
        return "panic", json.dumps(payload)
    return st, json.dumps(payload)[:300]


def compare(text, impl_reply, model_reply):
    """None when both sides agree, else a short description"""
    ist, idet = impl_verdict(impl_reply)
    if model_reply is None:
        return "model gave no reply (impl: %s)" % ist
    mst, mrest = model_reply
    if ist != mst:
        return "verdict: impl=%s model=%s (%s | %s)" % (ist, mst, str(idet)[:200] if ist != "ok" else "", mrest[:200])
    if ist == "ok":
        if " ; " in mrest:
            msexp, mlocs = mrest.rsplit(" ; ", 1)
        else:
            msexp, mlocs = mrest, ""
        isexp = pdlast.to_sexp(pdlast.strip_loc(idet))
        if isexp != msexp:
            k = next((j for j, (a, b) in enumerate(zip(isexp, msexp)) if a != b), min(len(isexp), len(msexp)))
            return "ast: impl=..%s model=..%s" % (isexp[max(0, k - 40):k + 60], msexp[max(0, k - 40):k + 60])
        il, ml = impl_locs(idet), mlocs.split(" ") if mlocs else []
        if il != ml:
            k = next((j for j, (a, b) in enumerate(zip(il, ml)) if a != b), min(len(il), len(ml)))
            return "locs[%d]: impl=%s model=%s (counts %d/%d)" % (
                k, il[k] if k < len(il) else None, ml[k] if k < len(ml) else None, len(il), len(ml))
        return None
    if ist in ("converr", "walkerr"):
        if idet != mrest:
            return "%s detail: impl=%r model=%r" % (ist, idet, mrest)
        return None
    if ist == "panic":
        return None    # both panic; sites are reported by the caller
    return None


# ----------------------------------------------------------------------------- layout-randomized rendering

KEYWORDS = ["enum", "packet", "struct", "group", "checksum", "custom_field", "test", "if",
            "little_endian_packets", "big_endian_packets"]
ID_POOL = ["a", "b", "x", "Foo", "Bar_1", "A1", "z9_", "enumx", "packets", "structs", "groupie", "testy",
           "ifx", "iff", "checksums", "custom_fields", "enum", "packet", "struct", "group", "test", "if",
           "little_endian_packetsx", "X_Y_Z", "a_", "T0", "payload", "body", "fixed", "E", "P", "Q"]
NONASCII = ["\u00e9", "\u00df", "\u65e5\u672c", "\u2192", "\U0001d518", "\u00a0", "\u2003", "\u2028", "\u00fc", "\u0416"]


class Layout:
    """decides what goes between two tokens"""

    def __init__(self, rng, density=0.3, p_bad_kw=0.03, p_glue=0.03, comments=True, cr_comments=False):
        self.rng = rng
        self.density = density      # probability that a free gap gets a non-trivial filler
        self.p_bad_kw = p_bad_kw    # probability that a keyword is NOT followed by a whitespace char
        self.p_glue = p_glue        # probability that two alphanumeric tokens are glued
        self.comments = comments
        self.cr_comments = cr_comments   # line comments may end in CR / CRLF (a lone CR does not end them)

    def ws(self):
        r = self.rng
        return "".join(r.choice([" ", " ", "\t", "\n", "\r\n", "\r", "  ", "\n  "]) for _ in range(r.randint(1, 3)))

    def comment(self):
        r = self.rng
        words = ["x", "a b", "packet P {", "/*", "*", "//", "\"", "0x", "TODO", ""] + NONASCII
        body = " ".join(r.choice(words) for _ in range(r.randint(0, 4)))
        k = r.random()
        if k < 0.45:
            body = body.replace("*/", "* /")
            return "/*" + body + "*/"
        if k < 0.5:
            return "/**/"
        body = body.replace("\n", " ")
        end = "\n"
        q = r.random()
        if self.cr_comments and q < 0.2:
            end = "\r\n"
        elif self.cr_comments and q < 0.3:
            end = "\r"          # does NOT end the comment
        return "//" + body + end

    def filler(self):
        r = self.rng
        parts = []
        for _ in range(r.randint(1, 3)):
            if self.comments and r.random() < 0.4:
                parts.append(self.comment())
            else:
                parts.append(self.ws())
        return "".join(parts)

    def free(self, left, right):
        """gap between two tokens that the grammar lets touch"""
        r = self.rng
        alnum = bool(left) and bool(right) and _isword(left[-1]) and _isword(right[0])
        if alnum and r.random() >= self.p_glue:
            # a separator is needed to keep the tokens apart
            if r.random() < self.density:
                f = self.filler()
                return f if f else " "
            return " "
        if r.random() < self.density:
            return self.filler()
        return r.choice(["", "", " "])

    def after_keyword(self):
        r = self.rng
        if r.random() < self.p_bad_kw:
            return r.choice(["", self.comment(), "/**/ "])
        f = r.choice([" ", " ", "\n", "\t", "\r"])
        if r.random() < self.density:
            f += self.filler()
        return f


def _isword(c):
    return c.isalnum() and c.isascii() or c == "_"


def int_text(n, rng, plain=False):
    if plain or rng.random() < 0.5:
        s = str(n)
        if rng.random() < 0.05:
            s = "0" * rng.randint(1, 3) + s
        return s
    h = "%x" % n
    h = "".join(c.upper() if rng.random() < 0.5 else c for c in h)
    if rng.random() < 0.1:
        h = "0" * rng.randint(1, 3) + h
    return rng.choice(["0x", "0X"]) + h


KW = object()     # marker: the previous token is a keyword that needs a whitespace char


def constraint_tokens(c, rng):
    v = c["tag_id"] if c.get("tag_id") is not None else int_text(c["value"], rng)
    return [c["id"], "=", v]


def sep_list(items, rng, trailing_ok, p_trailing=0.3, p_bad_trailing=0.0):
    out = []
    for i, it in enumerate(items):
        if i:
            out.append(",")
        out.extend(it)
    if items and ((trailing_ok and rng.random() < p_trailing) or (not trailing_ok and rng.random() < p_bad_trailing)):
        out.append(",")
    return out


def field_tokens(f, rng, bad=0.0):
    k = f["kind"]
    if k == "scalar_field":
        t = [f["id"], ":", int_text(f["width"], rng)]
    elif k == "flag_field":
        t = [f["id"], ":", "1"]
    elif k == "typedef_field":
        t = [f["id"], ":", f["type_id"]]
    elif k == "array_field":
        elem = int_text(f["width"], rng) if f.get("width") is not None else f["type_id"]
        t = [f["id"], ":", elem, "["]
        if f.get("size") is not None:
            t.append(int_text(f["size"], rng))
        elif f.get("size_modifier") is not None:
            t.append(str(f["size_modifier"]))
        t.append("]")
    elif k == "size_field":
        t = ["_size_", "(", f["field_id"], ")", ":", int_text(f["width"], rng)]
    elif k == "count_field":
        t = ["_count_", "(", f["field_id"], ")", ":", int_text(f["width"], rng)]
    elif k == "elementsize_field":
        t = ["_elementsize_", "(", f["field_id"], ")", ":", int_text(f["width"], rng)]
    elif k == "payload_field":
        t = ["_payload_"]
        if f.get("size_modifier"):
            t += [":", "[", str(f["size_modifier"]), "]"]
    elif k == "body_field":
        t = ["_body_"]
    elif k == "fixed_field":
        if "enum_id" in f:
            t = ["_fixed_", "=", f["tag_id"], ":", f["enum_id"]]
        else:
            t = ["_fixed_", "=", int_text(f["value"], rng), ":", int_text(f["width"], rng)]
    elif k == "reserved_field":
        t = ["_reserved_", ":", int_text(f["width"], rng)]
    elif k == "padding_field":
        t = ["_padding_", "[", int_text(f["size"], rng), "]"]
    elif k == "checksum_field":
        t = ["_checksum_start_", "(", f["field_id"], ")"]
    elif k == "group_field":
        t = [f["group_id"]]
        cs = f.get("constraints") or []
        if cs or f.get("_braces"):
            t += ["{"] + sep_list([constraint_tokens(c, rng) for c in cs], rng, False, p_bad_trailing=bad) + ["}"]
    else:
        raise ValueError(k)
    if f.get("cond"):
        t += ["if"] + constraint_tokens(f["cond"], rng)
    return t


def tag_tokens(t, rng):
    if "range" in t:
        out = [t["id"], "=", int_text(t["range"]["start"], rng), "..", int_text(t["range"]["end"], rng)]
        if t.get("tags") or t.get("_braces"):
            out += ["{"] + sep_list([[x["id"], "=", int_text(x["value"], rng)] for x in t["tags"]], rng, True) + ["}"]
        return out
    if "value" in t:
        return [t["id"], "=", int_text(t["value"], rng)]
    return [t["id"], "=", ".."]


def string_token(s):
    return '"' + s + '"'


def decl_tokens(d, rng, bad=0.0):
    k = d["kind"]
    if k == "enum_declaration":
        return ["enum", KW, d["id"], ":", int_text(d["width"], rng), "{"] + \
            sep_list([tag_tokens(t, rng) for t in d["tags"]], rng, True) + ["}"]
    if k in ("packet_declaration", "struct_declaration"):
        t = ["packet" if k.startswith("packet") else "struct", KW, d["id"]]
        if d.get("parent_id"):
            t += [":", d["parent_id"]]
        if d.get("constraints"):
            t += ["("] + sep_list([constraint_tokens(c, rng) for c in d["constraints"]], rng, False, p_bad_trailing=bad) + [")"]
        return t + ["{"] + sep_list([field_tokens(f, rng, bad) for f in d["fields"]], rng, True) + ["}"]
    if k == "group_declaration":
        return ["group", KW, d["id"], "{"] + sep_list([field_tokens(f, rng, bad) for f in d["fields"]], rng, True) + ["}"]
    if k == "custom_field_declaration":
        t = ["custom_field", KW, d["id"]]
        if d.get("width") is not None:
            t += [":", int_text(d["width"], rng)]
        return t + [string_token(d["function"])]
    if k == "checksum_declaration":
        return ["checksum", KW, d["id"], ":", int_text(d["width"], rng), string_token(d["function"])]
    if k == "test_declaration":
        cases = d.get("test_cases") or [{"input": ""}]
        return ["test", KW, d["type_id"], "{"] + sep_list([[string_token(c["input"])] for c in cases], rng, True) + ["}"]
    raise ValueError(k)


def file_tokens(f, rng, bad=0.0):
    toks = [f["endianness"]["value"] + "_packets", KW]
    for d in f["declarations"]:
        toks += decl_tokens(d, rng, bad)
    return toks


def layout_text(toks, lay, lead=True, trail=True):
    """tokens (with KW markers) -> text"""
    r = lay.rng
    out = []
    if lead and r.random() < lay.density:
        out.append(lay.filler())
    prev = None
    need_kw = False
    for t in toks:
        if t is KW:
            need_kw = True
            continue
        if prev is not None:
            out.append(lay.after_keyword() if need_kw else lay.free(prev, t))
        need_kw = False
        out.append(t)
        prev = t
    if need_kw:
        # the endianness keyword ends the file: it still needs its whitespace
        out.append(lay.after_keyword())
    if trail and r.random() < lay.density:
        out.append(lay.filler())
    return "".join(out)


# ----------------------------------------------------------------------------- random ASTs (syntax only)


def rid(rng):
    if rng.random() < 0.7:
        return rng.choice(ID_POOL)
    n = rng.randint(1, 8)
    first = rng.choice("abcxyzABCXYZ")
    return first + "".join(rng.choice("abcXYZ019_") for _ in range(n - 1))


def rint(rng):
    k = rng.random()
    if k < 0.6:
        return rng.randint(0, 64)
    if k < 0.8:
        return rng.randint(0, 1 << 32)
    if k < 0.9:
        return rng.choice([(1 << 64) - 1, (1 << 63), (1 << 64) - 2, (1 << 32), 0])
    if k < 0.95:
        return rng.randint(0, (1 << 64) - 1)
    return rng.choice([1 << 64, (1 << 64) + 1, 1 << 70, 10 ** 25])      # do not fit usize


def rstr(rng):
    k = rng.random()
    if k < 0.5:
        return rid(rng)
    parts = ["a b", "\n", "\t", "\\", "\\n", "'", "//", "/* x */", "{}", ""] + NONASCII
    return "".join(rng.choice(parts) for _ in range(rng.randint(0, 4)))


def rconstraint(rng):
    if rng.random() < 0.5:
        return pdlast.constraint(rid(rng), value=rint(rng))
    return pdlast.constraint(rid(rng), tag_id=rid(rng))


def rfield(rng):
    k = rng.randint(0, 15)
    if k == 0:
        f = pdlast.scalar(rid(rng), rint(rng))
    elif k == 1:
        f = pdlast.typedef(rid(rng), rid(rng))
    elif k == 2:
        which = rng.randint(0, 2)
        f = pdlast.array(rid(rng), width=rint(rng) if rng.random() < 0.5 else None,
                         size=rint(rng) if which == 0 else None,
                         size_modifier="+%d" % rng.choice([0, 1, 2, 10, 1 << 64]) if which == 1 else None)
        if f["width"] is None:
            f["type_id"] = rid(rng)
    elif k == 3:
        f = pdlast.size_f(rng.choice([rid(rng), "_payload_", "_body_"]), rint(rng))
    elif k == 4:
        f = pdlast.count_f(rid(rng), rint(rng))
    elif k == 5:
        f = pdlast.elementsize_f(rid(rng), rint(rng))
    elif k == 6:
        f = pdlast.payload("+%d" % rng.randint(0, 300) if rng.random() < 0.5 else None)
    elif k == 7:
        f = pdlast.body()
    elif k == 8:
        f = pdlast.fixed_s(rint(rng), rint(rng))
    elif k == 9:
        f = pdlast.fixed_e(rid(rng), rid(rng))
    elif k == 10:
        f = pdlast.reserved(rint(rng))
    elif k == 11:
        f = pdlast.padding(rint(rng))
    elif k == 12:
        f = pdlast.checksum_f(rid(rng)) if hasattr(pdlast, "checksum_f") else \
            {"kind": "checksum_field", "field_id": rid(rng), "cond": None}
    elif k == 13:
        f = pdlast.group_f(rid(rng), [rconstraint(rng) for _ in range(rng.randint(0, 3))])
        if rng.random() < 0.3:
            f["_braces"] = True
    else:
        f = pdlast.scalar(rid(rng), rint(rng))
    if rng.random() < 0.15:
        f["cond"] = rconstraint(rng)
    return f


def rtag(rng):
    k = rng.random()
    if k < 0.55:
        return pdlast.tag_v(rid(rng), rint(rng))
    if k < 0.9:
        t = pdlast.tag_r(rid(rng), rint(rng), rint(rng),
                         [pdlast.tag_v(rid(rng), rint(rng)) for _ in range(rng.randint(0, 3))])
        return t
    return pdlast.tag_o(rid(rng))


def rdecl(rng):
    k = rng.randint(0, 9)
    if k <= 1:
        return pdlast.enum(rid(rng), rint(rng), [rtag(rng) for _ in range(rng.randint(1, 5))])
    if k <= 4:
        mk = pdlast.packet if k < 4 else pdlast.struct
        return mk(rid(rng), [rfield(rng) for _ in range(rng.randint(0, 6))],
                  parent_id=rid(rng) if rng.random() < 0.4 else None,
                  constraints=[rconstraint(rng) for _ in range(rng.randint(0, 3))] if rng.random() < 0.4 else [])
    if k == 5:
        return pdlast.group(rid(rng), [rfield(rng) for _ in range(rng.randint(1, 4))])
    if k == 6:
        return pdlast.custom_field(rid(rng), rint(rng) if rng.random() < 0.6 else None, rstr(rng))
    if k == 7:
        return pdlast.checksum(rid(rng), rint(rng), rstr(rng))
    if k == 8:
        return {"kind": "test_declaration", "type_id": rid(rng),
                "test_cases": [{"input": rstr(rng)} for _ in range(rng.randint(1, 3))]}
    return pdlast.packet(rid(rng), [rfield(rng) for _ in range(rng.randint(0, 3))])


def rfile(rng, max_decls=6):
    return pdlast.file(rng.choice(["little_endian", "big_endian"]), [rdecl(rng) for _ in range(rng.randint(0, max_decls))])


def handmade_files():
    """one file naming every declaration and field kind"""
    P = pdlast
    full = P.file("big_endian", [
        P.enum("E", 8, [P.tag_v("A", 1), P.tag_r("R", 2, 9, [P.tag_v("R1", 2), P.tag_v("R2", 0x9)]),
                        P.tag_r("S", 10, 20), P.tag_o("Other")]),
        P.checksum("Crc", 16, "crc16"),
        P.custom_field("Sized", 24, "sized"),
        P.custom_field("Unsized", None, "unsized"),
        P.group("G", [P.scalar("g1", 8), P.fixed_s(8, 0x42), P.typedef("ge", "E")]),
        P.struct("S", [P.scalar("s", 16)]),
        P.packet("Parent", [
            {"kind": "checksum_field", "field_id": "crc", "cond": None},
            P.scalar("flag", 1), P.reserved(7),
            P.scalar("opt", 8, cond=P.constraint("flag", value=1)),
            P.typedef("e", "E", cond=P.constraint("flag", value=0)),
            P.size_f("_payload_", 8), P.count_f("arr", 8), P.elementsize_f("arr2", 8), P.size_f("arr3", 16),
            P.array("arr", width=8), P.array("arr2", type_id="S"), P.array("arr3", type_id="S", size=3),
            P.array("arr4", width=16, size_modifier="+2"), P.padding(32),
            P.fixed_e("E", "A"), P.group_f("G", [P.constraint("g1", value=3), P.constraint("ge", tag_id="A")]),
            P.group_f("G"), P.typedef("c", "Sized"), P.typedef("crc", "Crc"),
            P.payload("+4"),
        ]),
        P.packet("Child", [P.body()], parent_id="Parent",
                 constraints=[P.constraint("e", tag_id="A"), P.constraint("flag", value=1)]),
        P.struct("T", [P.size_f("_body_", 8), P.body()], parent_id="S", constraints=[P.constraint("s", value=5)]),
        {"kind": "test_declaration", "type_id": "Child", "test_cases": [{"input": "\\x00\\x01"}, {"input": "é"}]},
    ])
    return [full]


# ----------------------------------------------------------------------------- near misses


def mutate_tokens(toks, rng):
    toks = list(toks)
    real = [i for i, t in enumerate(toks) if t is not KW]
    if not real:
        return toks
    k = rng.randint(0, 6)
    i = rng.choice(real)
    stray = [",", ":", "{", "}", "(", ")", "[", "]", "=", "..", "if", "+", "+1", "0x", "0X", "_payload_", "_body_",
             "enum", "packet", "\"", "/*", "*/", "//", ";", "x", "1", "_", "_x", "-1", "1..2", "@", "é"]
    if k == 0:
        del toks[i]
    elif k == 1:
        toks.insert(i, toks[i])
    elif k == 2:
        j = rng.choice(real)
        toks[i], toks[j] = toks[j], toks[i]
    elif k == 3:
        toks.insert(i, rng.choice(stray))
    elif k == 4:
        toks[i] = rng.choice(stray)
    elif k == 5:
        del toks[i:]
    else:
        # drop the KW marker after a keyword: free layout there
        kws = [j for j, t in enumerate(toks) if t is KW]
        if kws:
            del toks[rng.choice(kws)]
    return toks


SOUP = list(" \t\n\r{}()[]:,=+._/*\"") + ["//", "/*", "*/", "..", "0x", "0X", "1", "9", "a", "Z", "_", "é", "→", "𝔘",
                                              "enum ", "packet ", "struct ", "group ", "if ", "_payload_", "_body_",
                                              "little_endian_packets", "big_endian_packets\n", "\u00a0", "\ufeff"]


def mutate_chars(text, rng):
    if not text:
        return text
    k = rng.randint(0, 4)
    i = rng.randrange(len(text))
    if k == 0:
        return text[:i] + text[i + 1:]
    if k == 1:
        return text[:i] + rng.choice(SOUP) + text[i:]
    if k == 2:
        return text[:i]
    if k == 3:
        return text[:i] + rng.choice(SOUP) + text[i + 1:]
    j = rng.randrange(len(text))
    i, j = min(i, j), max(i, j)
    return text[:i] + text[j:]


def soup(rng):
    return "".join(rng.choice(SOUP) for _ in range(rng.randint(0, 40)))


EDGE_CASES = [
    "", " ", "\n", "little_endian_packets", "little_endian_packets\n", "little_endian_packets ",
    "big_endian_packets\t", "big_endian_packets\r", "little_endian_packets\r\n", "  big_endian_packets  ",
    "little_endian_packets//c", "little_endian_packets//c\n", "little_endian_packets/**/", "little_endian_packets /**/",
    "little_endian_packets\nlittle_endian_packets\n", "little_endian_packets big_endian_packets ",
    "little_endian_packets\u00a0", "\ufefflittle_endian_packets\n", "little_endian_packetsx\n",
    "Little_endian_packets\n", "little_endian_packet\n", "// only a comment", "/* unterminated", "/*/", "/**/",
    "little_endian_packets\n/* unterminated", "little_endian_packets\n/*/", "little_endian_packets\n/**/",
    "little_endian_packets\n/***/", "little_endian_packets\n/* * / */", "little_endian_packets\n// no newline",
    "little_endian_packets\n//", "little_endian_packets\n/", "little_endian_packets\n// a\r// b\rpacket P {}\n",
    "little_endian_packets\n// a\rpacket P {}", "little_endian_packets\n// a\r\npacket P {}",
    "little_endian_packets\npacket P {}", "little_endian_packets\npacket P {}\n", "little_endian_packets\npacket P{}",
    "little_endian_packets\npacketP {}", "little_endian_packets\npacket/**/P {}", "little_endian_packets\npacket /**/P {}",
    "little_endian_packets\npacket//x\nP {}", "little_endian_packets\npacket\n//x\nP {}",
    "little_endian_packets\npacket", "little_endian_packets\npacket ", "little_endian_packets\npacket P",
    "little_endian_packets\npacket P {", "little_endian_packets\npacket P { a : 8", "little_endian_packets\npacket P { a : 8,",
    "little_endian_packets\npacket P { , }", "little_endian_packets\npacket P { a : 8 ,, }",
    "little_endian_packets\npacket P { a : 8 b : 8 }", "little_endian_packets\npacket P { a:8,b:8 }",
    "little_endian_packets\npacket P { a:8ifb=1 }", "little_endian_packets\npacket P { a:8 ifb=1 }",
    "little_endian_packets\npacket P { a:8 if b=1 }", "little_endian_packets\npacket P { a:8 if b=1, }",
    "little_endian_packets\npacket P { a:Eif b=1 }", "little_endian_packets\npacket P { a:E if b=c }",
    "little_endian_packets\npacket P { a : 8 /* c */ }", "little_endian_packets\npacket P { a : 8 /* c */ , b : 8 // d\n }",
    "little_endian_packets\npacket P { _payload_ if b=1 }", "little_endian_packets\npacket P { _body_ if b = 1 }",
    "little_endian_packets\npacket P { _reserved_ : 8 if b = 1 }", "little_endian_packets\npacket P { G { a = 1 } if b = 1 }",
    "little_endian_packets\npacket P { a : 8[] if b = 1 }", "little_endian_packets\npacket P { _padding_[8] if b = 1 }",
    "little_endian_packets\npacket P (a = 1) {}", "little_endian_packets\npacket P : Q (a = 1) {}",
    "little_endian_packets\npacket P : Q (a = 1,) {}", "little_endian_packets\npacket P : Q () {}",
    "little_endian_packets\npacket P : Q (a = 1, b = X) {}", "little_endian_packets\npacket P : (a = 1) {}",
    "little_endian_packets\npacket P { G {} }", "little_endian_packets\npacket P { G { } , G {a=1} , G { a = 1, } }",
    "little_endian_packets\npacket P { G { a = 1 , b = c } }", "little_endian_packets\npacket P { G{a=1,} }",
    "little_endian_packets\npacket P { _payload_ }", "little_endian_packets\npacket P { _payload_ : [+2] }",
    "little_endian_packets\npacket P { _payload_ : [+ 2] }", "little_endian_packets\npacket P { _payload_ : [2] }",
    "little_endian_packets\npacket P { _payload_ : [+0x2] }", "little_endian_packets\npacket P { _payload_:[+02] }",
    "little_endian_packets\npacket P { _payload_ : [+18446744073709551616] }",
    "little_endian_packets\npacket P { _payload_x : 8 }", "little_endian_packets\npacket P { _payload_ x : 8 }",
    "little_endian_packets\npacket P { _body_ }", "little_endian_packets\npacket P { _body_x }",
    "little_endian_packets\npacket P { _body_ : 8 }", "little_endian_packets\npacket P { _size_(_payload_) : 8 }",
    "little_endian_packets\npacket P { _size_(_body_) : 8 }", "little_endian_packets\npacket P { _size_(_payload_x) : 8 }",
    "little_endian_packets\npacket P { _size_(_body_x) : 8 }", "little_endian_packets\npacket P { _size_ ( x ) : 8 }",
    "little_endian_packets\npacket P { _size_(x) 8 }", "little_endian_packets\npacket P { _count_(_payload_) : 8 }",
    "little_endian_packets\npacket P { _elementsize_(x) : 8 }", "little_endian_packets\npacket P { _checksum_start_(x) }",
    "little_endian_packets\npacket P { _checksum_start_(_payload_) }", "little_endian_packets\npacket P { _padding_[1] }",
    "little_endian_packets\npacket P { _padding_ [ 0x10 ] }", "little_endian_packets\npacket P { _padding_[] }",
    "little_endian_packets\npacket P { _fixed_ = 1 : 8 }", "little_endian_packets\npacket P { _fixed_ = A : E }",
    "little_endian_packets\npacket P { _fixed_ = 1 : E }", "little_endian_packets\npacket P { _fixed_ = A : 8 }",
    "little_endian_packets\npacket P { _fixed_ = 0x : 8 }", "little_endian_packets\npacket P { _fixed_=1:8 }",
    "little_endian_packets\npacket P { _reserved_ : 8 }", "little_endian_packets\npacket P { _reserved_ : E }",
    "little_endian_packets\npacket P { x : 8[] }", "little_endian_packets\npacket P { x : 8[3] }",
    "little_endian_packets\npacket P { x : 8[+3] }", "little_endian_packets\npacket P { x : E[0x3] }",
    "little_endian_packets\npacket P { x : E [ ] }", "little_endian_packets\npacket P { x : 8[+3 ] }",
    "little_endian_packets\npacket P { x : 8[+ 3] }", "little_endian_packets\npacket P { x : 8[y] }",
    "little_endian_packets\npacket P { x : 8[3][4] }", "little_endian_packets\npacket P { x : 0X10 }",
    "little_endian_packets\npacket P { x : 0x }", "little_endian_packets\npacket P { x : 0xg }",
    "little_endian_packets\npacket P { x : 0xFFFFFFFFFFFFFFFF }", "little_endian_packets\npacket P { x : 0x10000000000000000 }",
    "little_endian_packets\npacket P { x : 18446744073709551615 }", "little_endian_packets\npacket P { x : 18446744073709551616 }",
    "little_endian_packets\npacket P { x : 000000000000000000000000000001 }",
    "little_endian_packets\npacket P { x : 0x000000000000000000000001 }",
    "little_endian_packets\npacket P { x : 99999999999999999999, y : 0x }",
    "little_endian_packets\npacket P { x : 8 if a = 99999999999999999999, y : 99999999999999999998 }",
    "little_endian_packets\npacket P { x : 99999999999999999991 if a = 99999999999999999992 }",
    "little_endian_packets\npacket P { x : 99999999999999999991[99999999999999999992] }",
    "little_endian_packets\npacket P { _fixed_ = 99999999999999999991 : 99999999999999999992 }",
    "little_endian_packets\npacket P : Q (a = 99999999999999999991) { x : 99999999999999999992 }",
    "little_endian_packets\nenum E : 99999999999999999991 { A = 99999999999999999992 }",
    "little_endian_packets\nenum E : 8 { A = 1 .. 99999999999999999992 { B = 99999999999999999993 } }",
    "little_endian_packets\nenum E : 8 { A = 99999999999999999991 .. 2 }",
    "little_endian_packets\npacket P { x : 8a }", "little_endian_packets\npacket P { x : 8_ }",
    "little_endian_packets\npacket P { 8 : x }", "little_endian_packets\npacket P { _x : 8 }",
    "little_endian_packets\npacket P { x_ : 8 }", "little_endian_packets\npacket P { x__1 : 8 }",
    "little_endian_packets\npacket 1P {}", "little_endian_packets\npacket _P {}", "little_endian_packets\npacket é {}",
    "little_endian_packets\npacket packet {}", "little_endian_packets\npacket enum { if : 8 if if = if }",
    "little_endian_packets\npacket P { packet : 8, struct : struct, enum : enum[] }",
    "little_endian_packets\nstruct S {}", "little_endian_packets\nstruct S : T {}", "little_endian_packets\nstruct\tS{}",
    "little_endian_packets\nstruct\rS{}", "little_endian_packets\nstructs S {}", "little_endian_packets\ngroup G {}",
    "little_endian_packets\ngroup G { a : 8 }", "little_endian_packets\ngroup G : H { a : 8 }",
    "little_endian_packets\nenum E : 8 {}", "little_endian_packets\nenum E : 8 { A = 1 }", "little_endian_packets\nenum E : 8 { A = 1, }",
    "little_endian_packets\nenum E : 8 { A = 1,, }", "little_endian_packets\nenum E : 8 { A = 1 B = 2 }",
    "little_endian_packets\nenum E : 8 { A = 1..2 }", "little_endian_packets\nenum E : 8 { A = 1 .. 2 }",
    "little_endian_packets\nenum E : 8 { A = 1. .2 }", "little_endian_packets\nenum E : 8 { A = 1...2 }",
    "little_endian_packets\nenum E : 8 { A = 1..2 {} }", "little_endian_packets\nenum E : 8 { A = 1..2 { B = 1 } }",
    "little_endian_packets\nenum E : 8 { A = 1..2 { B = 1, } , }", "little_endian_packets\nenum E : 8 { A = 1..2 { B = 1..2 } }",
    "little_endian_packets\nenum E : 8 { A = 1..2 { B = .. } }", "little_endian_packets\nenum E : 8 { A = 1..2 /* c */ , B = 3 }",
    "little_endian_packets\nenum E : 8 { A = 1..2 /* c */ }", "little_endian_packets\nenum E : 8 { A = .. }",
    "little_endian_packets\nenum E : 8 { A = .. , }", "little_endian_packets\nenum E : 8 { A =.. }",
    "little_endian_packets\nenum E : 8 { A = . . }", "little_endian_packets\nenum E : 8 { A = ..2 }",
    "little_endian_packets\nenum E : 8 { A = 0x1..0X2 }", "little_endian_packets\nenum E : 8 { A = 0x..2 }",
    "little_endian_packets\nenum E { A = 1 }", "little_endian_packets\nenum E : X { A = 1 }",
    "little_endian_packets\nenum/**/E : 8 { A = 1 }", "little_endian_packets\nenum\n\nE:8{A=1}",
    "little_endian_packets\nchecksum C : 8 \"f\"", "little_endian_packets\nchecksum C : 8 \"\"", "little_endian_packets\nchecksum C : 8 \"",
    "little_endian_packets\nchecksum C : 8 \"a\nb\"", "little_endian_packets\nchecksum C : 8 \"a\\\"b\"",
    "little_endian_packets\nchecksum C \"f\"", "little_endian_packets\nchecksum C : 8\"f\"", "little_endian_packets\nchecksum C:8\"é→\"",
    "little_endian_packets\ncustom_field C \"f\"", "little_endian_packets\ncustom_field C : 8 \"f\"",
    "little_endian_packets\ncustom_field C : \"f\"", "little_endian_packets\ncustom_field C\"f\"",
    "little_endian_packets\ncustom_field C : 99999999999999999999 \"f\"", "little_endian_packets\ncustom_field C 'f'",
    "little_endian_packets\ncustom_field C \"f\" \"g\"", "little_endian_packets\ncustom_field C \"/* */ // \"",
    "little_endian_packets\ntest P { \"a\" }", "little_endian_packets\ntest P { \"a\", \"b\", }", "little_endian_packets\ntest P { }",
    "little_endian_packets\ntest P { \"a\" \"b\" }", "little_endian_packets\ntest P { \"99999999999999999999\" }",
    "little_endian_packets\ntest P { \"a\" } test Q { \"\" }", "little_endian_packets\ntest 1 { \"a\" }",
    "little_endian_packets\npacket P {} packet Q {}", "little_endian_packets\npacket P {}packet Q {}",
    "little_endian_packets\npacket P {};", "little_endian_packets\npacket P {} x", "little_endian_packets\npacket P {} /* c",
    "little_endian_packets\npacket P {} // c", "little_endian_packets\npacket P {} /* c */ // d",
    "little_endian_packets\n/* é→𝔘 */ packet P { /* ü */ a : 8 // Ж\n}\n",
    "little_endian_packets\n/* a *//* b */packet P {/**/}/**/",
    "little_endian_packets\n/* /* nested */ */ packet P {}", "little_endian_packets\n\n\n\npacket P {\n\n a : 8\n\n ,\n\n}\n\n",
    "little_endian_packets\r\npacket P {\r\n a : 8,\r\n b : 8\r\n}\r\n", "little_endian_packets\rpacket P {\r a : 8\r}\r",
    "little_endian_packets\n\x0bpacket P {}", "little_endian_packets\n\x0cpacket P {}", "little_endian_packets\n\x00",
    "little_endian_packets\npacket P { a : 8 } \x00",
]


def doc_snippets():
    try:
        md = (REPO / "doc" / "reference.md").read_text()
    except OSError:
        return []
    return [m.group(1) for m in re.finditer(r"```[a-z]*\n(.*?)```", md, re.S)]


def repo_files():
    out = []
    for p in sorted(REPO.rglob("*.pdl")):
        if "target" in p.parts:
            continue
        try:
            out.append((str(p.relative_to(REPO)), p.read_text()))
        except (OSError, UnicodeDecodeError):
            pass
    return out


# ----------------------------------------------------------------------------- corpus


def corpus(seed, n):
    """-> list of (id, category, text), deterministic in (seed, n)"""
    import gen
    rng = random.Random(seed)
    texts = []

    def add(cat, text):
        texts.append(("t%05d" % len(texts), cat, text))

    # (c) repository files and documentation snippets
    for name, t in repo_files():
        add("repo", t)
        add("repo-crlf", t.replace("\n", "\r\n"))
    for s in doc_snippets():
        add("doc", s)
        if "endian_packets" not in s:
            add("doc+endian", "little_endian_packets\n" + s)
    for t in EDGE_CASES:
        add("edge", t)
    # (a) generated ASTs, plain and with random layout
    big = [gen.codec_module(seed, "little_endian", prefix="L"), gen.codec_module(seed + 1, "big_endian", prefix="B")]
    for f in big:
        add("codec-plain", pdlast.to_pdl(f))
        add("codec-layout", layout_text(file_tokens(f, rng), Layout(rng, density=0.15, p_bad_kw=0.0, p_glue=0.0)))
    for f in handmade_files():
        add("hand-plain", layout_text(file_tokens(f, rng), Layout(rng, density=0.0, p_bad_kw=0.0, p_glue=0.0)))
        for _ in range(20):
            add("hand-layout", layout_text(file_tokens(f, rng), Layout(rng, density=rng.choice([0.1, 0.5, 0.9]),
                                                                         p_bad_kw=0.0, p_glue=0.0)))
    small_decls = [d for f in big for d in f["declarations"]]
    while len(texts) < n:
        k = rng.random()
        if k < 0.15:
            ds = rng.sample(small_decls, rng.randint(1, 4))
            f = pdlast.file(rng.choice(["little_endian", "big_endian"]), ds)
        else:
            f = rfile(rng)
        lay = Layout(rng, density=rng.choice([0.0, 0.1, 0.3, 0.6, 0.95]),
                     p_bad_kw=rng.choice([0.0, 0.0, 0.05, 0.3]), p_glue=rng.choice([0.0, 0.0, 0.05, 0.5]),
                     comments=rng.random() < 0.8, cr_comments=rng.random() < 0.1)
        bad = rng.choice([0.0, 0.0, 0.2])
        toks = file_tokens(f, rng, bad)
        m = rng.random()
        if m < 0.5:
            add("gen-layout", layout_text(toks, lay))
        elif m < 0.7:
            for _ in range(rng.randint(1, 2)):
                toks = mutate_tokens(toks, rng)
            add("gen-tokmut", layout_text(toks, lay))
        elif m < 0.9:
            t = layout_text(toks, lay)
            for _ in range(rng.randint(1, 3)):
                t = mutate_chars(t, rng)
            add("gen-charmut", t)
        elif m < 0.95:
            add("soup", soup(rng))
        else:
            add("soup-prefixed", rng.choice(["little_endian_packets\n", "big_endian_packets "]) + soup(rng))
    return texts


# ----------------------------------------------------------------------------- main loop


def size_bucket(n):
    for b in (0, 16, 64, 256, 1024, 4096, 16384, 65536):
        if n <= b:
            return "<=%d" % b
    return ">65536"


def run(seed=1, n=3000, build=True, dump=None, verbose=True):
    oracle, binary = prepare(build)
    texts = corpus(seed, n)
    # the texts must be valid UTF-8 strings (the Rust side takes a String)
    texts = [(i, c, t.encode("utf-8", errors="ignore").decode("utf-8")) for i, c, t in texts]
    pairs = [(i, t) for i, _, t in texts]
    impl = impl_parse(binary, pairs)
    model = model_parse(pairs, oracle)
    stats = collections.Counter()
    by_cat = collections.defaultdict(collections.Counter)
    sizes = collections.Counter()
    disagreements = []
    panics = []
    accepted = []
    for i, cat, t in texts:
        ir = impl.get(i, ("missing", {}))
        mr = model.get(i)
        d = compare(t, ir, mr)
        verdict = impl_verdict(ir)[0]
        stats[verdict] += 1
        by_cat[cat][verdict] += 1
        sizes[size_bucket(len(t.encode("utf-8")))] += 1
        if verdict == "ok":
            accepted.append((i, t))
        if verdict == "panic" or (mr and mr[0] == "panic"):
            panics.append((i, t, ir, mr))
        if d:
            disagreements.append((i, cat, t, d))
    if "__crash__" in model:
        disagreements.append(("__crash__", "model", "", "oracle crashed: %s" % (model["__crash__"],)))
    # rule coverage over the accepted texts (instrumented interpreter)
    rules = collections.Counter()
    cov = model_parse(accepted, oracle, op="parse-rules")
    for i, _ in accepted:
        st, rest = cov.get(i, ("none", ""))
        if st == "ok" and rest:
            for kv in rest.split(","):
                k, v = kv.rsplit(":", 1)
                rules[k] += int(v)
    all_rules = re.findall(r'mkRule "(\w+)"', GRAMMAR_V.read_text())
    report = {
        "seed": seed, "texts": len(texts), "verdicts": dict(stats),
        "by_category": {c: dict(v) for c, v in sorted(by_cat.items())},
        "sizes": dict(sizes), "disagreements": len(disagreements), "panics": len(panics),
        "rules": {r: rules.get(r, 0) for r in all_rules + ["EOI"]},
        "rules_never_matched": [r for r in all_rules if not rules.get(r)],
    }
    if dump:
        d = pathlib.Path(dump)
        d.mkdir(parents=True, exist_ok=True)
        (d / "report.json").write_text(json.dumps(report, indent=1))
        (d / "disagreements.json").write_text(json.dumps(
            [{"id": i, "cat": c, "text": t, "why": w} for i, c, t, w in disagreements], indent=1, ensure_ascii=False))
    if verbose:
        print(json.dumps(report, indent=1))
        for i, c, t, w in disagreements[:25]:
            print("DISAGREE", i, c, repr(t[:300]), "::", w[:600])
        for i, t, ir, mr in panics[:10]:
            print("PANIC", i, repr(t[:200]), ir, mr)
    return report, disagreements


def main():
    ap = argparse.ArgumentParser()
    ap.add_argument("--seed", type=int, default=1)
    ap.add_argument("--n", type=int, default=3000)
    ap.add_argument("--no-build", action="store_true")
    ap.add_argument("--dump")
    a = ap.parse_args()
    report, dis = run(a.seed, a.n, build=not a.no_build, dump=a.dump)
    return 1 if dis else 0


if __name__ == "__main__":
    sys.exit(main())
