"""Java-backend harness (PROTOCOL.md section 3).

build(modules, work_dir, pdlc) -> pathlib.Path      class directory (work_dir/classes)
run(classdir, requests, timeout_s=120) -> dict      case_id -> (status, payload)

Every module is generated with `pdlc --output-format java --output-dir .. --java-package
<module name>` into work_dir/src/<name>/*.java and compiled (javac) into
work_dir/classes/<name>/.  The driver is the generic reflective harness/java/h3/Driver.java
(class h3.Driver); it is told about the modules through work_dir/classes/h3_schema.json.
One JVM serves all requests of a run() call.
"""

import hashlib
import json
import os
import pathlib
import re
import shutil
import subprocess
import time

try:
    from . import py_harness as common
except ImportError:  # imported as a top level module
    import sys as _sys
    _sys.path.insert(0, str(pathlib.Path(__file__).resolve().parent))
    import py_harness as common

JAVA_DIR = common.HARNESS_DIR / "java"
JAVAC = "javac"
JAVA = "java"


def java_class_name(decl_id):
    """backends/java/mod.rs Class::name_from_id."""
    name = common.to_upper_camel_case(decl_id)
    return name + "_" if decl_id.endswith("_") else name


def java_schema(name, schema):
    types = {}
    for tid in schema["type_order"]:
        t = schema["types"][tid]
        getters, setters = {}, {}
        for f in t["fields"]:
            up = common.to_upper_camel_case(f["id"])
            if not f["constrained"]:
                getters[f["id"]] = "get" + up
                setters[f["id"]] = "set" + up
        if t["own_payload"]:
            getters["payload"] = "getPayload"
            setters["payload"] = "setPayload"
        entry = {"java": java_class_name(tid), "value_keys": t["value_keys"], "getters": getters,
                 "setters": setters, "constrained": [f["id"] for f in t["fields"] if f["constrained"]],
                 "own_payload": t["own_payload"], "parent": t["parent"], "kind": t["kind"]}
        if t["problems"]:
            entry["unsupported"] = "; ".join(t["problems"])
        types[tid] = entry
    enums = {e: {"java": java_class_name(e), "width": v["width"]} for e, v in schema["enums"].items()}
    return {"package": name, "types": types, "enums": enums}


def _hash_dir(d):
    h = hashlib.sha256()
    for p in sorted(pathlib.Path(d).glob("*.java")):
        h.update(p.name.encode())
        h.update(b"\0")
        h.update(p.read_bytes())
        h.update(b"\0")
    return h.hexdigest()


def _javac(files, classes, work_dir, tag):
    argfile = work_dir / ("javac_%s.args" % tag)
    argfile.write_text("\n".join('"%s"' % str(f).replace("\\", "\\\\") for f in files) + "\n")
    cmd = [JAVAC, "-nowarn", "-encoding", "UTF-8", "-Xmaxerrs", "200", "-proc:none", "-d", str(classes), "@" + str(argfile)]
    env = dict(os.environ)
    env["LC_ALL"] = "C"
    try:
        p = subprocess.run(cmd, stdout=subprocess.PIPE, stderr=subprocess.PIPE, stdin=subprocess.DEVNULL,
                           env=env, timeout=3600)
    except subprocess.TimeoutExpired:
        return False, "javac timeout"
    return p.returncode == 0, (p.stderr.decode("utf-8", "replace") + p.stdout.decode("utf-8", "replace"))


def build(modules, work_dir, pdlc):
    t_start = time.monotonic()
    work_dir = pathlib.Path(work_dir)
    src = work_dir / "src"
    classes = work_dir / "classes"
    tmp = work_dir / "tmp_gen"
    for d in (src, classes):
        d.mkdir(parents=True, exist_ok=True)
    failed, uncompilable, schemas, jschemas = {}, {}, {}, {}
    for m in modules:
        name = m["name"]
        pdl_path, ex_args, ast, err = common.prepare_module(m, work_dir, pdlc)
        if err:
            failed[name] = err
            continue
        try:
            schema = common.module_schema(name, ast)
            jschema = java_schema(name, schema)
        except Exception as e:
            failed[name] = "schema: %s: %s" % (type(e).__name__, e)
            continue
        out_dir = tmp / name
        shutil.rmtree(out_dir, ignore_errors=True)
        out_dir.mkdir(parents=True)
        ok, out, err = common.run_pdlc(pdlc, ["--output-format", "java", "--output-dir", out_dir,
                                               "--java-package", name] + ex_args + [pdl_path])
        gen_files = sorted((out_dir / name).glob("*.java")) if (out_dir / name).is_dir() else []
        if not ok or not gen_files:
            failed[name] = "java: " + (err if not ok else "no files generated")
            shutil.rmtree(out_dir, ignore_errors=True)
            continue
        dst = src / name
        dst.mkdir(exist_ok=True)
        keep = set()
        for f in gen_files:
            common.write_if_changed(dst / f.name, f.read_bytes())
            keep.add(f.name)
        for old in dst.glob("*.java"):
            if old.name not in keep:
                old.unlink()
        shutil.rmtree(out_dir, ignore_errors=True)
        schemas[name] = schema
        jschemas[name] = jschema
    shutil.rmtree(tmp, ignore_errors=True)
    t_gen = time.monotonic() - t_start

    # driver
    t0 = time.monotonic()
    drv_src = JAVA_DIR / "h3" / "Driver.java"
    drv_digest = hashlib.sha256(drv_src.read_bytes()).hexdigest()
    drv_stamp = classes / "h3.stamp"
    drv_ok = False
    try:
        drv_ok = (classes / "h3" / "Driver.class").exists() and drv_stamp.read_text() == drv_digest
    except OSError:
        pass
    if not drv_ok:
        shutil.rmtree(classes / "h3", ignore_errors=True)
        ok, err = _javac([drv_src], classes, work_dir, "driver")
        if not ok:
            raise RuntimeError("h3/Driver.java does not compile: " + err[:3000])
        drv_stamp.write_text(drv_digest)
    t_driver = time.monotonic() - t0

    # modules
    t0 = time.monotonic()
    todo = []
    digests = {}
    for name in sorted(schemas):
        digests[name] = _hash_dir(src / name)
        stamp = classes / (name + ".stamp")
        failstamp = classes / (name + ".failed")
        try:
            if (classes / name).is_dir() and stamp.read_text() == digests[name]:
                continue
        except OSError:
            pass
        try:
            cached = failstamp.read_text()
            if cached.startswith(digests[name] + "\n"):
                uncompilable[name] = cached[len(digests[name]) + 1:]
                continue
        except OSError:
            pass
        todo.append(name)
    rounds = 0
    pending = list(todo)
    while pending:
        rounds += 1
        for name in pending:
            shutil.rmtree(classes / name, ignore_errors=True)
            for q in (classes / (name + ".stamp"), classes / (name + ".failed")):
                try:
                    q.unlink()
                except OSError:
                    pass
        files = []
        for name in pending:
            files += sorted((src / name).glob("*.java"))
        ok, err = _javac(files, classes, work_dir, "modules")
        if ok:
            for name in pending:
                (classes / (name + ".stamp")).write_text(digests[name])
            break
        bad = []
        for line in err.splitlines():
            mm = re.match(r"^(.*?/src/([A-Za-z0-9_]+)/[^/:]+\.java):\d+: error", line)
            if mm and mm.group(2) in pending and mm.group(2) not in bad:
                bad.append(mm.group(2))
        if not bad:
            if len(pending) == 1:
                bad = list(pending)
            else:
                # cannot attribute: compile one by one
                for name in pending:
                    shutil.rmtree(classes / name, ignore_errors=True)
                    ok1, err1 = _javac(sorted((src / name).glob("*.java")), classes, work_dir, "modules")
                    if ok1:
                        (classes / (name + ".stamp")).write_text(digests[name])
                    else:
                        uncompilable[name] = err1[:2048]
                        (classes / (name + ".failed")).write_text(digests[name] + "\n" + err1[:2048])
                        shutil.rmtree(classes / name, ignore_errors=True)
                break
        for name in bad:
            lines = [l for l in err.splitlines() if ("/src/%s/" % name) in l]
            text = "\n".join(lines)[:2048] or err[:2048]
            uncompilable[name] = text
            (classes / (name + ".failed")).write_text(digests[name] + "\n" + text)
            shutil.rmtree(classes / name, ignore_errors=True)
        pending = [n for n in pending if n not in bad]
    t_modules = time.monotonic() - t0
    for name in list(uncompilable):
        schemas.pop(name, None)
        jschemas.pop(name, None)
    common.write_if_changed(classes / "h3_schema.json", json.dumps(jschemas, sort_keys=True))
    common.write_if_changed(work_dir / "schema.json", json.dumps(schemas, sort_keys=True))
    report = {"language": "java", "failed_modules": failed, "uncompilable_modules": uncompilable,
              "built_modules": sorted(schemas), "classdir": str(classes)}
    common.write_if_changed(work_dir / "build_report.json", json.dumps(report, indent=1, sort_keys=True))
    build.last_timing = {"generate_s": round(t_gen, 2), "driver_s": round(t_driver, 2),
                         "modules_s": round(t_modules, 2), "javac_rounds": rounds, "compiled_modules": len(todo),
                         "total_s": round(time.monotonic() - t_start, 2)}
    return classes


def run(classdir, requests, timeout_s=120):
    classdir = pathlib.Path(classdir)
    env = dict(os.environ)
    env.pop("JAVA_TOOL_OPTIONS", None)
    cmd = [JAVA, "-ea", "-Xmx2g", "-Xss64m", "-XX:+UseSerialGC", "-XX:TieredStopAtLevel=1",
           "-Dfile.encoding=UTF-8", "-cp", str(classdir), "h3.Driver", str(classdir / "h3_schema.json")]
    return common.run_process(cmd, requests, timeout_s=timeout_s, env=env)
