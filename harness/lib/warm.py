"""warm the caches of every shared stage (quick tier)"""
import common


def run(seed):
    import rustcodec
    try:
        rustcodec.collect("quick", seed)
    except common.Infra as e:
        common.log("warm rustcodec failed: " + str(e)[:500])
