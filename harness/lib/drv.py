"""Build and run the in-process pdl compiler driver (PROTOCOL.md sections 0 and 2).

    build(work_dir, target_dir) -> pathlib.Path
    run(binary, requests, timeout_s=30, stack_mb=64) -> dict[case_id -> (status, payload)]

Python 3.11, stdlib only.  Nothing is written outside `work_dir`, `target_dir`
and the directory that holds `binary`.
"""

from __future__ import annotations

import json
import os
import pathlib
import resource
import selectors
import shutil
import signal
import subprocess
import tempfile
import time

REPO = pathlib.Path("/repo")
CRATE_SRC = pathlib.Path(__file__).resolve().parent.parent / "drv"
CRATE_FILES = ("Cargo.toml", "src/main.rs")
BINARY_NAME = "pdl-drv"

CARGO_CONFIG = "[net]\noffline = true\n"

STATUSES = ("ok", "err", "panic", "none", "unsupported")


class BuildError(RuntimeError):
    """cargo failed; str(e) holds the tail of cargo's output."""


def _write_if_changed(path: pathlib.Path, data: bytes) -> bool:
    try:
        if path.read_bytes() == data:
            return False
    except OSError:
        pass
    path.parent.mkdir(parents=True, exist_ok=True)
    tmp = path.with_name(path.name + ".tmp")
    tmp.write_bytes(data)
    os.replace(tmp, path)
    return True


def _copy_if_changed(src: pathlib.Path, dst: pathlib.Path) -> bool:
    """Copy a (large) file when size or mtime differ; keeps mtime (copy2)."""
    try:
        s, d = src.stat(), dst.stat()
        if s.st_size == d.st_size and s.st_mtime_ns == d.st_mtime_ns:
            return False
    except OSError:
        pass
    dst.parent.mkdir(parents=True, exist_ok=True)
    tmp = dst.with_name("%s.%d.tmp" % (dst.name, os.getpid()))
    shutil.copy2(src, tmp)
    os.replace(tmp, dst)
    return True


def build(work_dir, target_dir) -> pathlib.Path:
    """(Re)create the pdl-drv crate in `work_dir` and build it offline.

    * copies harness/drv/{Cargo.toml,src/main.rs} into work_dir (only when the
      content changed), writes .cargo/config.toml ([net] offline = true);
    * seeds work_dir/Cargo.lock from /repo/Cargo.lock.  The copy of the
      repo's lock is kept in work_dir/Cargo.lock.repo; the working lock file
      (which cargo amends with the pdl-drv package itself) is only reset when
      /repo/Cargo.lock changed, so that warm builds touch nothing;
    * cargo build --offline (dev profile, see Cargo.toml) with
      CARGO_TARGET_DIR=target_dir, CARGO_NET_OFFLINE=true, RUSTFLAGS=-Awarnings;
    * copies the binary to work_dir/pdl-drv and returns that path (so several
      work dirs can share one target_dir, and run() has a scratch location
      next to the binary).
    Raises BuildError when cargo fails.
    """
    work_dir = pathlib.Path(work_dir).resolve()
    target_dir = pathlib.Path(target_dir).resolve()
    work_dir.mkdir(parents=True, exist_ok=True)
    target_dir.mkdir(parents=True, exist_ok=True)

    for rel in CRATE_FILES:
        _write_if_changed(work_dir / rel, (CRATE_SRC / rel).read_bytes())
    _write_if_changed(work_dir / ".cargo" / "config.toml", CARGO_CONFIG.encode())

    repo_lock = (REPO / "Cargo.lock").read_bytes()
    lock = work_dir / "Cargo.lock"
    if _write_if_changed(work_dir / "Cargo.lock.repo", repo_lock) or not lock.exists():
        lock.write_bytes(repo_lock)

    env = dict(os.environ)
    env.update(
        CARGO_TARGET_DIR=str(target_dir),
        CARGO_NET_OFFLINE="true",
        RUSTFLAGS="-Awarnings",
        RUST_BACKTRACE="0",
        CARGO_TERM_COLOR="never",
    )
    proc = subprocess.run(
        ["cargo", "build", "--offline", "--bin", BINARY_NAME],
        cwd=work_dir,
        env=env,
        stdout=subprocess.PIPE,
        stderr=subprocess.STDOUT,
        text=True,
        errors="replace",
    )
    (work_dir / "build.log").write_text(proc.stdout)
    if proc.returncode != 0:
        raise BuildError("cargo build failed (%d):\n%s" % (proc.returncode, proc.stdout[-4000:]))
    built = target_dir / "debug" / BINARY_NAME
    if not built.exists():
        raise BuildError("cargo succeeded but %s is missing" % built)
    binary = work_dir / BINARY_NAME
    _copy_if_changed(built, binary)
    return binary


# ---------------------------------------------------------------------------
# run
# ---------------------------------------------------------------------------


def _encode_request(req) -> bytes:
    case_id, op, arg_text, *options = req
    parts = [str(case_id), str(op), json.dumps(arg_text)]
    for opt in options:
        opt = str(opt)
        if "\t" in opt or "\n" in opt or "\r" in opt:
            raise ValueError("option contains TAB/newline: %r" % (opt,))
        parts.append(opt)
    for p in parts[:2]:
        if "\t" in p or "\n" in p or "\r" in p:
            raise ValueError("case_id/op contains TAB/newline: %r" % (p,))
    return ("\t".join(parts) + "\n").encode("utf-8")


def _decode_reply(line: bytes):
    """-> (case_id, status, payload) or None when the line is not a reply."""
    text = line.decode("utf-8", errors="replace").rstrip("\r\n")
    parts = text.split("\t", 2)
    if len(parts) != 3 or parts[1] not in STATUSES:
        return None
    try:
        payload = json.loads(parts[2])
    except ValueError:
        payload = {"undecodable_payload": parts[2][:2000]}
    return parts[0], parts[1], payload


def _tail(path: pathlib.Path, n: int = 2000) -> str:
    try:
        with open(path, "rb") as f:
            f.seek(0, os.SEEK_END)
            size = f.tell()
            f.seek(max(0, size - n))
            return f.read().decode("utf-8", errors="replace")
    except OSError:
        return ""


def _limits(stack_mb, mem_limit_mb):
    def set_limits():
        def clamp(res, want):
            soft, hard = resource.getrlimit(res)
            if hard != resource.RLIM_INFINITY:
                want = min(want, hard)
            try:
                resource.setrlimit(res, (want, hard))
            except (ValueError, OSError):
                pass

        if stack_mb:
            clamp(resource.RLIMIT_STACK, int(stack_mb) << 20)
        if mem_limit_mb:
            clamp(resource.RLIMIT_AS, int(mem_limit_mb) << 20)
        clamp(resource.RLIMIT_CORE, 0)

    return set_limits


def run(binary, requests, timeout_s=30, stack_mb=64, *, mem_limit_mb=4096):
    """Feed `requests` to the driver; return {case_id: (status, payload)}.

    requests: iterable of tuples (case_id, op, arg_text, *options); arg_text is
    the PDL source (JSON-encoded here), options are strings such as "rust",
    "exclude=A,B".  case_ids must be unique strings without TAB/newline.

    status is one of ok/err/panic/unsupported (from the driver) or
      "abort":   the process died before answering this case; payload
                 {"signal": <n>, "signal_name": ..} or {"reason": "exit", "code": n},
                 plus "stderr" (tail of the driver's stderr);
      "timeout": no reply within timeout_s; payload {"reason": "no reply within <n>s"}.
    After an abort/timeout a fresh process is started on the cases after the
    offending one.  The main thread of the driver runs with RLIMIT_STACK =
    stack_mb MiB and RLIMIT_AS = mem_limit_mb MiB (None/0 = unlimited).
    """
    binary = pathlib.Path(binary).resolve()
    requests = [tuple(r) for r in requests]
    encoded = [_encode_request(r) for r in requests]
    ids = [str(r[0]) for r in requests]
    if len(set(ids)) != len(ids):
        raise ValueError("duplicate case ids")

    results: dict = {}
    tmp_parent = binary.parent / "tmp"
    os.makedirs(tmp_parent, exist_ok=True)
    tmp = pathlib.Path(tempfile.mkdtemp(prefix="run-", dir=tmp_parent))
    env = dict(os.environ)
    env.update(RUST_BACKTRACE="0", PDL_DRV_TMP=str(tmp))
    try:
        start = 0
        generation = 0
        while start < len(requests):
            generation += 1
            start = _run_once(
                binary, ids, encoded, start, results, tmp, generation, env,
                timeout_s, stack_mb, mem_limit_mb,
            )
    finally:
        shutil.rmtree(tmp, ignore_errors=True)   # the parent stays: removing it races with concurrent run()s
    return results


def _run_once(binary, ids, encoded, start, results, tmp, generation, env,
              timeout_s, stack_mb, mem_limit_mb) -> int:
    """Run one driver process on cases[start:]; returns the index to resume at."""
    stdin_path = tmp / ("stdin-%d" % generation)
    stderr_path = tmp / ("stderr-%d" % generation)
    with open(stdin_path, "wb") as f:
        f.writelines(encoded[start:])
    stdin_f = open(stdin_path, "rb")
    stderr_f = open(stderr_path, "wb")
    try:
        proc = subprocess.Popen(
            [str(binary)],
            stdin=stdin_f,
            stdout=subprocess.PIPE,
            stderr=stderr_f,
            env=env,
            cwd=str(tmp),
            preexec_fn=_limits(stack_mb, mem_limit_mb),
            start_new_session=True,
        )
    finally:
        stdin_f.close()
        stderr_f.close()

    fd = proc.stdout.fileno()
    os.set_blocking(fd, False)
    sel = selectors.DefaultSelector()
    sel.register(fd, selectors.EVENT_READ)
    pending = b""
    nxt = start  # index of the first unanswered case
    deadline = time.monotonic() + timeout_s
    outcome = None  # None = all answered, "eof", "timeout", "desync"
    desync_line = None
    try:
        while nxt < len(ids):
            remaining = deadline - time.monotonic()
            if remaining <= 0:
                outcome = "timeout"
                break
            if not sel.select(remaining):
                outcome = "timeout"
                break
            try:
                chunk = os.read(fd, 1 << 20)
            except BlockingIOError:
                continue
            if not chunk:
                outcome = "eof"
                break
            pending += chunk
            while nxt < len(ids):
                nl = pending.find(b"\n")
                if nl < 0:
                    break
                line, pending = pending[: nl + 1], pending[nl + 1:]
                reply = _decode_reply(line)
                if reply is None or reply[0] != ids[nxt]:
                    outcome = "desync"
                    desync_line = line[:500].decode("utf-8", errors="replace")
                    break
                results[ids[nxt]] = (reply[1], reply[2])
                nxt += 1
                deadline = time.monotonic() + timeout_s
            if outcome:
                break
    finally:
        sel.close()
        if outcome in ("timeout", "desync") or proc.poll() is None and nxt < len(ids):
            _kill(proc)
        proc.stdout.close()
        try:
            proc.wait(timeout=10)
        except subprocess.TimeoutExpired:
            _kill(proc)
            proc.wait()

    if nxt >= len(ids):
        return nxt

    if outcome == "timeout":
        results[ids[nxt]] = ("timeout", {"reason": "no reply within %gs" % timeout_s})
    else:
        payload = {}
        rc = proc.returncode
        if outcome == "desync":
            payload["reason"] = "unexpected output line"
            payload["line"] = desync_line
        elif rc is not None and rc < 0:
            payload["signal"] = -rc
            try:
                payload["signal_name"] = signal.Signals(-rc).name
            except ValueError:
                pass
        else:
            payload["reason"] = "exit"
            payload["code"] = rc
        err = _tail(stderr_path)
        if err:
            payload["stderr"] = err
        results[ids[nxt]] = ("abort", payload)
    return nxt + 1


def _kill(proc) -> None:
    try:
        os.killpg(proc.pid, signal.SIGKILL)
    except (ProcessLookupError, PermissionError, OSError):
        try:
            proc.kill()
        except OSError:
            pass
