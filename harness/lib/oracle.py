"""Run the extracted Coq oracle (.cache/oracle/oracle) on batches of cases."""
import os, subprocess, pathlib, json

ROOT = pathlib.Path(__file__).resolve().parents[2]
ORACLE = ROOT / ".cache" / "oracle" / "oracle"


def run(file_sexp, cases, oracle=ORACLE, timeout=None):
    """cases: list of s-expression lines '(ID OP FUEL TYPE ARGS..)'.
    Returns dict id -> (status, [payload parts])."""
    if timeout is None:
        # ~1 ms per case on an idle machine; leave two orders of magnitude for a loaded one
        timeout = 900 + len(cases) // 5
    inp = file_sexp + "\n" + "\n".join(cases) + "\n"
    env = dict(os.environ)
    p = subprocess.run(["/bin/sh", "-c", f"ulimit -s unlimited 2>/dev/null; exec {oracle}"],
                       input=inp.encode(), capture_output=True, timeout=timeout, env=env)
    out = {}
    lines = p.stdout.decode().split("\n")
    if not lines or not lines[0].startswith("#\tloaded"):
        raise RuntimeError("oracle could not load file: " + (lines[0] if lines else "") + p.stderr.decode()[-500:])
    for ln in lines[1:]:
        if not ln:
            continue
        parts = ln.split("\t")
        out[parts[0]] = (parts[1], parts[2:])
    if p.returncode != 0:
        out["__crash__"] = ("crash", [str(p.returncode), p.stderr.decode()[-500:]])
    return out


def run_many(jobs, workers=16):
    """jobs: list of (file_sexp, cases); run in parallel, return list of dicts."""
    from concurrent.futures import ThreadPoolExecutor
    with ThreadPoolExecutor(max_workers=workers) as ex:
        return list(ex.map(lambda j: run(j[0], j[1]), jobs))
