"""C++-backend harness (PROTOCOL.md section 3).

build(modules, work_dir, pdlc, sanitize, ndebug) -> pathlib.Path   (driver binary)
run(binary, requests, timeout_s=60) -> dict case_id -> (status, payload)

For every module `pdlc --output-format cxx --namespace <name>` writes
work_dir/gen/<name>.h; a glue translation unit work_dir/gen/mod_<name>.cc is generated
from the JSON AST (view getters -> value JSON, value JSON -> builder constructor
arguments).  One object per module (compiled in parallel), linked with
harness/cxx/h3_main.cc and a generated registry.cc into
work_dir/build-san<0|1>-nd<0|1>/driver.
"""

import concurrent.futures
import hashlib
import json
import os
import pathlib
import re
import subprocess
import time

try:
    from . import py_harness as common
except ImportError:  # imported as a top level module
    import sys as _sys
    _sys.path.insert(0, str(pathlib.Path(__file__).resolve().parent))
    import py_harness as common

CXX_DIR = common.HARNESS_DIR / "cxx"
RUNTIME_INCLUDE = "/repo/pdl-compiler/scripts"
GXX = "g++"
MAX_JOBS = 16

# --------------------------------------------------------------------------
# header inspection
# --------------------------------------------------------------------------


def _class_block(header, class_name):
    m = re.search(r"^class %s\b[^;{]*\{" % re.escape(class_name), header, re.M)
    if not m:
        return None
    end = header.find("\n};\n", m.end())
    if end < 0:
        return None
    return header[m.start():end]


def _split_params(text):
    parts, depth, cur = [], 0, ""
    for ch in text:
        if ch in "<([{":
            depth += 1
        elif ch in ">)]}":
            depth -= 1
        if ch == "," and depth == 0:
            parts.append(cur)
            cur = ""
        else:
            cur += ch
    if cur.strip():
        parts.append(cur)
    out = []
    for p in parts:
        p = p.strip()
        m = re.match(r"^(.*\S)\s+([A-Za-z_][A-Za-z0-9_]*)$", p, re.S)
        if not m:
            return None
        out.append((m.group(1), m.group(2)))
    return out


def _ctor_params(block, class_name):
    """Parameters [(type text, name)] of `explicit Class(...)`; [] when only the
    default constructor exists; None when unparsable."""
    m = re.search(r"explicit %s\((.*?)\) :" % re.escape(class_name), block, re.S)
    if not m:
        return []
    return _split_params(m.group(1))


# --------------------------------------------------------------------------
# glue generation
# --------------------------------------------------------------------------


def _cstr(s):
    return json.dumps(s)


def _backing_bits(width):
    for n in (8, 16, 32, 64):
        if width <= n:
            return n
    return None


def analyse_support(schema, header, skip):
    """-> {type id: None (supported) | reason}; plus parsed info per type."""
    types = schema["types"]
    support = {}
    info = {}
    for tid in schema["type_order"]:
        t = types[tid]
        reason = None
        if tid in skip:
            reason = skip[tid]
        elif t["problems"]:
            reason = "; ".join(t["problems"])
        elif t["kind"] == "struct" and (t["parent"] or t["children"]):
            reason = "struct inheritance is not handled by the C++ backend"
        elif any(types[a]["kind"] != t["kind"] for a in t["chain"]):
            reason = "mixed packet/struct inheritance"
        else:
            for f in t["fields"]:
                k = f["elem"]["kind"] if f["kind"] == "array" else f["kind"]
                if k in ("custom", "checksum", "unknown"):
                    reason = "field %s: %s types are not supported by the C++ backend" % (f["id"], k)
                    break
                w = f["elem"]["width"] if f["kind"] == "array" else f["width"]
                if k in ("scalar", "enum") and (w is None or w > 64):
                    reason = "field %s: width %s" % (f["id"], w)
                    break
        if reason is None:
            if t["kind"] == "struct":
                block = _class_block(header, tid)
                if block is None:
                    reason = "class %s not found in the generated header" % tid
                else:
                    params = _ctor_params(block, tid)
                    members = [f["id"] for f in t["fields"]] + (["payload"] if t["own_payload"] else [])
                    for mname in members:
                        if not re.search(r"\b%s_\b" % re.escape(mname), block):
                            reason = "member %s_ not found in struct %s" % (mname, tid)
                            break
                    info[tid] = {"params": params, "members": members}
            else:
                vblock = _class_block(header, tid + "View")
                bblock = _class_block(header, tid + "Builder")
                if vblock is None or bblock is None:
                    reason = "class %sView/%sBuilder not found in the generated header" % (tid, tid)
                else:
                    getters = []
                    for key in t["value_keys"]:
                        g = "GetPayload" if key == "payload" else "Get" + common.to_upper_camel_case(key)
                        if key == "payload" and any(f["id"] == "payload" for f in t["fields"]):
                            reason = "field named payload clashes with the payload accessor"
                            break
                        if not re.search(r"\b%s\(\) const" % re.escape(g), vblock):
                            reason = "getter %s() not found in %sView" % (g, tid)
                            break
                        getters.append((key, g))
                    params = _ctor_params(bblock, tid + "Builder")
                    info[tid] = {"params": params, "getters": getters}
            if reason is None:
                params = info[tid]["params"]
                if params is None:
                    reason = "constructor parameters of %s could not be parsed" % tid
                else:
                    known = {f["id"] for f in t["fields"] if not f["constrained"]}
                    if t["own_payload"]:
                        known.add("payload")
                    for _, pname in params:
                        if pname not in known:
                            reason = "constructor parameter %s of %s is not a known field" % (pname, tid)
                            break
        support[tid] = reason
    # propagate through used structs and ancestors
    changed = True
    while changed:
        changed = False
        for tid in schema["type_order"]:
            if support[tid] is not None:
                continue
            t = types[tid]
            for u in t["uses"]:
                if u in types and support.get(u) is not None:
                    support[tid] = "uses %s: %s" % (u, support[u])
                    changed = True
                    break
            if support[tid] is None:
                for a in t["chain"][:-1]:
                    if _class_block(header, a + "View") is None:
                        support[tid] = "ancestor view %sView not found" % a
                        changed = True
                        break
    return support, info


def generate_glue(name, schema, header, skip=None):
    """Source text of mod_<name>.cc and the support map."""
    skip = skip or {}
    types = schema["types"]
    support, info = analyse_support(schema, header, skip)
    L = []
    A = L.append
    A("// generated by harness/lib/cxx_harness.py - do not edit")
    A('#include "h3_driver.h"')
    A('#include "%s.h"' % name)
    A("")
    A("namespace %s {" % name)
    A("")
    structs = [t for t in schema["type_order"] if types[t]["kind"] == "struct" and support[t] is None]
    packets = [t for t in schema["type_order"] if types[t]["kind"] == "packet" and support[t] is None]
    for s in structs:
        A("static h3::Json h3_sj_%s(%s const& v);" % (s, s))
        A("static bool h3_sf_%s(h3::Json const& j, %s& out, std::string& err);" % (s, s))
        A("inline h3::Json to_json(%s const& v) { return h3_sj_%s(v); }" % (s, s))
        A("inline bool from_json(h3::Json const& j, %s& out, std::string& err) { return h3_sf_%s(j, out, err); }" % (s, s))
    A("")

    def from_json_body(tid, params, ignored, ctor_expr):
        body = []
        body.append('    if (!j.is_object()) { err = "%s: expected an object"; return false; }' % tid)
        for ptype, pname in params:
            body.append("    %s p_%s{};" % (ptype, pname))
        body.append("    for (auto const& kv : j.o) {")
        first = True
        for ptype, pname in params:
            body.append("        %sif (kv.first == %s) { if (!h3::unconv(kv.second, p_%s, err)) { err = std::string(%s) + err; return false; } }"
                        % ("" if first else "else ", _cstr(pname), pname, _cstr(pname + ": ")))
            first = False
        for key in ignored:
            body.append("        %sif (kv.first == %s) { /* fixed by a constraint: ignored */ }" % ("" if first else "else ", _cstr(key)))
            first = False
        body.append("        %s{ err = std::string(%s) + kv.first; return false; }" % ("" if first else "else ", _cstr(tid + ": unknown key ")))
        body.append("    }")
        args = ", ".join("std::move(p_%s)" % pname for _, pname in params)
        body.append("    " + ctor_expr(args))
        return body

    for s in structs:
        t = types[s]
        A("static h3::Json h3_sj_%s(%s const& v) {" % (s, s))
        A("    h3::Json o = h3::Json::object();")
        for mname in info[s]["members"]:
            A("    o.set(%s, h3::conv(v.%s_));" % (_cstr(mname), mname))
        A("    return o;")
        A("}")
        A("static bool h3_sf_%s(h3::Json const& j, %s& out, std::string& err) {" % (s, s))
        params = info[s]["params"]
        for line in from_json_body(s, params, [], lambda args: ("out = %s(%s);" % (s, args)) if params else ("out = %s();" % s)):
            A(line)
        A("    return true;")
        A("}")
        A("static bool h3_view_%s(pdl::packet::slice const& input, h3::Json& value) {" % s)
        A("    pdl::packet::slice span = input;")
        A("    %s out;" % s)
        A("    if (!%s::Parse(span, &out)) return false;" % s)
        A("    if (span.size() != 0) return false;")
        A("    value = h3_sj_%s(out);" % s)
        A("    return true;")
        A("}")
        A("static bool h3_build_%s(h3::Json const& j, std::vector<uint8_t>& bytes, uint64_t& size, std::string& err) {" % s)
        A("    %s out;" % s)
        A("    if (!h3_sf_%s(j, out, err)) return false;" % s)
        A("    bytes = out.SerializeToBytes();")
        A("    size = out.GetSize();")
        A("    return true;")
        A("}")
        A("")
    for p in packets:
        t = types[p]
        A("static bool h3_view_%s(pdl::packet::slice const& input, h3::Json& value) {" % p)
        prev = "input"
        for n, a in enumerate(t["chain"]):
            A("    %sView v%d = %sView::Create(%s);" % (a, n, a, prev))
            prev = "v%d" % n
        A("    if (!%s.IsValid()) return false;" % prev)
        A("    h3::Json o = h3::Json::object();")
        for key, getter in info[p]["getters"]:
            A("    o.set(%s, h3::conv(%s.%s()));" % (_cstr(key), prev, getter))
        A("    value = std::move(o);")
        A("    return true;")
        A("}")
        A("static bool h3_build_%s(h3::Json const& j, std::vector<uint8_t>& bytes, uint64_t& size, std::string& err) {" % p)
        params = info[p]["params"]
        ignored = [f["id"] for f in t["fields"] if f["constrained"]]
        for line in from_json_body(p, params, ignored,
                                   lambda args: ("%sBuilder b(%s);" % (p, args)) if params else ("%sBuilder b;" % p)):
            A(line)
        A("    bytes = b.SerializeToBytes();")
        A("    size = b.GetSize();")
        A("    return true;")
        A("}")
        A("")
    enum_rows = []
    for e in sorted(schema["enums"]):
        en = schema["enums"][e]
        bits = _backing_bits(en["width"]) if en["width"] else None
        if bits is None:
            enum_rows.append((e, None, None, None))
            continue
        has_valid = re.search(r"inline bool IsValid%s\(" % re.escape(e), header) is not None
        has_text = re.search(r"inline std::string %sText\(" % re.escape(e), header) is not None
        if has_valid:
            A("static bool h3_valid_%s(uint64_t raw) { return IsValid%s(static_cast<uint%d_t>(raw)); }" % (e, e, bits))
        if has_text:
            A("static std::string h3_text_%s(uint64_t raw) { return %sText(static_cast<%s>(raw)); }" % (e, e, e))
        enum_rows.append((e, bits, has_valid, has_text))
    A("")
    A("void h3_dispatch(h3::Request const& rq, h3::Reply& rp) {")
    A('    if (rq.op == "enum_from" || rq.op == "enum_sweep") {')
    A("        std::string type = rq.type, arg = rq.arg;")
    A('        if (rq.op == "enum_from") {')
    A("            size_t tab = arg.find('\\t');")
    A("            if (tab != std::string::npos) { type = arg.substr(0, tab); arg = arg.substr(tab + 1); }")
    A("        }")
    for e, bits, has_valid, has_text in enum_rows:
        if bits is None:
            A('        if (type == %s) { rp.unsupported("enum width not supported"); return; }' % _cstr(e))
        else:
            A("        if (type == %s) { h3::enum_op(rq, arg, %d, %s, %s, rp); return; }"
              % (_cstr(e), bits, ("&h3_valid_" + e) if has_valid else "nullptr", ("&h3_text_" + e) if has_text else "nullptr"))
    A('        rp.unsupported("unknown enum " + type);')
    A("        return;")
    A("    }")
    for tid in schema["type_order"]:
        if support[tid] is None:
            A("    if (rq.type == %s) { h3::codec_op(rq, %s, &h3_view_%s, &h3_build_%s, rp); return; }" % (_cstr(tid), _cstr(tid), tid, tid))
        else:
            A("    if (rq.type == %s) { rp.unsupported(%s); return; }" % (_cstr(tid), _cstr(support[tid][:300])))
    for e in sorted(schema["enums"]):
        A('    if (rq.type == %s) { rp.unsupported("%s is an enum"); return; }' % (_cstr(e), e))
    A('    rp.unsupported("unknown type " + rq.type);')
    A("}")
    A("")
    A("}  // namespace %s" % name)
    A("")
    return "\n".join(L), support


def _registry_source(names):
    L = ["// generated by harness/lib/cxx_harness.py - do not edit", '#include "h3_driver.h"', ""]
    for n in names:
        L.append("namespace %s { void h3_dispatch(h3::Request const&, h3::Reply&); }" % n)
    L.append("")
    L.append("void h3_register_modules(h3::Registry& registry) {")
    L.append("    (void)registry;")
    for n in names:
        L.append("    registry[%s] = &%s::h3_dispatch;" % (_cstr(n), n))
    L.append("}")
    L.append("")
    return "\n".join(L)


# --------------------------------------------------------------------------
# compilation
# --------------------------------------------------------------------------


def _flags(sanitize, ndebug):
    flags = ["-std=c++20", "-I" + RUNTIME_INCLUDE]
    if sanitize:
        flags += ["-fsanitize=address,undefined", "-fno-sanitize-recover=all", "-g"]
    if ndebug:
        flags += ["-DNDEBUG"]
    return flags


def _compile(src, obj, flags, includes, stamp_inputs):
    """Compile src -> obj unless the stamp says it is up to date.
    Returns (ok, stderr_text, seconds, skipped)."""
    h = hashlib.sha256()
    h.update(" ".join(flags + includes).encode())
    # the runtime header of the working tree is an input of every object
    for p in [src] + list(stamp_inputs) + [pathlib.Path(RUNTIME_INCLUDE) / "packet_runtime.h"]:
        h.update(b"\0")
        try:
            h.update(pathlib.Path(p).read_bytes())
        except OSError:
            h.update(b"<missing>")
    digest = h.hexdigest()
    stamp = pathlib.Path(str(obj) + ".stamp")
    failstamp = pathlib.Path(str(obj) + ".failed")
    try:
        if obj.exists() and stamp.read_text() == digest:
            return True, "", 0.0, True
    except OSError:
        pass
    try:
        cached = failstamp.read_text()
        if cached.startswith(digest + "\n"):
            return False, cached[len(digest) + 1:], 0.0, True
    except OSError:
        pass
    t0 = time.monotonic()
    cmd = [GXX] + flags + includes + ["-w", "-fmax-errors=20", "-c", str(src), "-o", str(obj)]
    env = dict(os.environ)
    env["LC_ALL"] = "C"
    try:
        p = subprocess.run(cmd, stdout=subprocess.PIPE, stderr=subprocess.PIPE, stdin=subprocess.DEVNULL,
                           env=env, timeout=1800)
        ok = p.returncode == 0
        err = p.stderr.decode("utf-8", "replace")
    except subprocess.TimeoutExpired:
        ok, err = False, "g++ timeout"
    dt = time.monotonic() - t0
    if ok:
        stamp.write_text(digest)
        try:
            failstamp.unlink()
        except OSError:
            pass
    else:
        for q in (obj, stamp):
            try:
                q.unlink()
            except OSError:
                pass
        if err != "g++ timeout":
            failstamp.write_text(digest + "\n" + err)
    return ok, err, dt, False


_ERR_FN = re.compile(r"h3_(?:view|build|sj|sf)_([A-Za-z0-9_]+)")


def _first_error(text):
    for line in text.splitlines():
        if " error: " in line or "fatal error" in line:
            return line.strip()[:300]
    return text.strip()[:300]


def _build_module(name, schema, gen, objdir, flags, includes):
    """Compile one module, retrying with the types named in the errors left
    out.  Returns dict(ok, obj, error, support, seconds, attempts, header_compiles)."""
    header_path = gen / (name + ".h")
    header = header_path.read_text()
    src = gen / ("mod_%s.cc" % name)
    obj = objdir / ("mod_%s.o" % name)
    skip = {}
    total = 0.0
    err = ""
    for attempt in range(1, 5):
        source, support = generate_glue(name, schema, header, skip)
        common.write_if_changed(src, source)
        ok, err, dt, skipped = _compile(src, obj, flags, includes, [header_path, CXX_DIR / "h3_driver.h"])
        total += dt
        if ok:
            return {"ok": True, "obj": obj, "support": support, "seconds": total, "attempts": attempt,
                    "cached": skipped}
        # only diagnostics located in the glue file can be cured by skipping types
        named = []
        in_glue = False
        for line in err.splitlines():
            if ("mod_%s.cc" % name) in line:
                in_glue = True
            for m in _ERR_FN.finditer(line):
                if m.group(1) in schema["types"] and m.group(1) not in skip and m.group(1) not in named:
                    named.append(m.group(1))
        if not named or not in_glue:
            break
        why = "glue code does not compile against the generated header: " + _first_error(err)
        for tname in named:
            skip[tname] = why
    # classify: does the header compile on its own?
    probe = gen / ("probe_%s.cc" % name)
    common.write_if_changed(probe, '#include "%s.h"\nint h3_probe_%s() { return 0; }\n' % (name, name))
    pobj = objdir / ("probe_%s.o" % name)
    hok, herr, dt, _ = _compile(probe, pobj, flags, includes, [header_path])
    total += dt
    return {"ok": False, "error": err[:2048], "seconds": total, "header_compiles": hok,
            "header_error": herr[:2048] if not hok else ""}


def build(modules, work_dir, pdlc, sanitize=True, ndebug=False):
    t_start = time.monotonic()
    work_dir = pathlib.Path(work_dir)
    gen = work_dir / "gen"
    gen.mkdir(parents=True, exist_ok=True)
    variant = "build-san%d-nd%d" % (1 if sanitize else 0, 1 if ndebug else 0)
    objdir = work_dir / variant
    objdir.mkdir(parents=True, exist_ok=True)
    flags = _flags(sanitize, ndebug)
    includes = ["-I" + str(CXX_DIR), "-I" + str(gen)]
    failed, uncompilable, schemas, timings = {}, {}, {}, {}
    for m in modules:
        name = m["name"]
        pdl_path, ex_args, ast, err = common.prepare_module(m, work_dir, pdlc)
        if err:
            failed[name] = err
            continue
        try:
            schema = common.module_schema(name, ast)
        except Exception as e:
            failed[name] = "schema: %s: %s" % (type(e).__name__, e)
            continue
        ok, out, err = common.run_pdlc(pdlc, ["--output-format", "cxx", "--namespace", name] + ex_args + [pdl_path])
        if not ok:
            failed[name] = "cxx: " + err
            continue
        common.write_if_changed(gen / (name + ".h"), out)
        schemas[name] = schema
    t_gen = time.monotonic() - t_start
    results = {}
    jobs = max(1, min(MAX_JOBS, os.cpu_count() or 1))
    with concurrent.futures.ThreadPoolExecutor(max_workers=jobs) as pool:
        futs = {pool.submit(_build_module, n, schemas[n], gen, objdir, flags, includes): n for n in sorted(schemas)}
        main_f = pool.submit(_compile, CXX_DIR / "h3_main.cc", objdir / "h3_main.o", flags, includes, [CXX_DIR / "h3_driver.h"])
        for f in concurrent.futures.as_completed(futs):
            results[futs[f]] = f.result()
        main_ok, main_err, _, _ = main_f.result()
    if not main_ok:
        raise RuntimeError("h3_main.cc does not compile: " + main_err[:2000])
    good = []
    unsupported_types = {}
    for n in sorted(results):
        r = results[n]
        timings[n] = round(r["seconds"], 2)
        if r["ok"]:
            good.append(n)
            un = {t: why for t, why in r["support"].items() if why is not None}
            if un:
                unsupported_types[n] = un
        else:
            uncompilable[n] = {"error": r["error"], "header_compiles": r["header_compiles"],
                               "header_error": r.get("header_error", "")}
            schemas.pop(n, None)
    reg_src = objdir / "registry.cc"
    common.write_if_changed(reg_src, _registry_source(good))
    ok, err, _, reg_cached = _compile(reg_src, objdir / "registry.o", flags, includes, [CXX_DIR / "h3_driver.h"])
    if not ok:
        raise RuntimeError("registry.cc does not compile: " + err[:2000])
    binary = objdir / "driver"
    objs = [objdir / "h3_main.o", objdir / "registry.o"] + [results[n]["obj"] for n in good]
    link_stamp = objdir / "driver.stamp"
    h = hashlib.sha256(" ".join(flags).encode())
    for o in objs:
        h.update(str(o).encode())
        h.update(pathlib.Path(str(o) + ".stamp").read_bytes())
    digest = h.hexdigest()
    t_link = 0.0
    relink = True
    try:
        relink = not (binary.exists() and link_stamp.read_text() == digest)
    except OSError:
        pass
    if relink:
        t0 = time.monotonic()
        link_flags = ["-fsanitize=address,undefined"] if sanitize else []
        p = subprocess.run([GXX] + link_flags + [str(o) for o in objs] + ["-o", str(binary)],
                           stdout=subprocess.PIPE, stderr=subprocess.PIPE)
        t_link = time.monotonic() - t0
        if p.returncode != 0:
            raise RuntimeError("link failed: " + p.stderr.decode("utf-8", "replace")[:2000])
        link_stamp.write_text(digest)
    common.write_if_changed(work_dir / "schema.json", json.dumps(schemas, sort_keys=True))
    report = {"language": "cxx", "failed_modules": failed, "uncompilable_modules": uncompilable,
              "built_modules": good, "unsupported_types": unsupported_types,
              "flags": flags, "binary": str(binary)}
    common.write_if_changed(work_dir / "build_report.json", json.dumps(report, indent=1, sort_keys=True))
    build.last_timing = {"generate_s": round(t_gen, 2), "modules_s": timings, "link_s": round(t_link, 2),
                         "total_s": round(time.monotonic() - t_start, 2)}
    return binary


def run(binary, requests, timeout_s=60):
    env = dict(os.environ)
    env["ASAN_OPTIONS"] = "detect_leaks=0:abort_on_error=0:max_allocation_size_mb=2048:allocator_may_return_null=0:color=never"
    env["UBSAN_OPTIONS"] = "print_stacktrace=1:color=never"
    return common.run_process([str(binary)], requests, timeout_s=timeout_s, env=env, stack_mb=64)
