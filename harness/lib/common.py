"""Shared plumbing of the checks: paths, locking, tree hash, builds, caches,
evidence and verdict output."""

import contextlib
import fcntl
import hashlib
import json
import os
import pathlib
import re
import shutil
import subprocess
import sys
import time

ROOT = pathlib.Path(__file__).resolve().parents[2]          # /verif
REPO = pathlib.Path(os.environ.get("VERIF_REPO", "/repo"))
CACHE = ROOT / ".cache"
TARGET = CACHE / "target"
TARGET_HARNESS = CACHE / "target-harness"
TARGET_DRV = CACHE / "target-drv"
COQ = ROOT / "coq"
EVIDENCE = ROOT / "evidence"
REPLAYS = ROOT / "replays"
PDLC = TARGET / "debug" / "pdlc"

CARGO_ENV = {"CARGO_NET_OFFLINE": "true", "RUST_BACKTRACE": "0"}


class Infra(Exception):
    """an infrastructure failure (never a verdict about the property)"""


def log(*a):
    print("[vp]", *a, file=sys.stderr, flush=True)


@contextlib.contextmanager
def locked(name):
    CACHE.mkdir(exist_ok=True)
    p = CACHE / f"{name}.lock"
    with open(p, "w") as fh:
        fcntl.flock(fh, fcntl.LOCK_EX)
        try:
            yield
        finally:
            fcntl.flock(fh, fcntl.LOCK_UN)


def sh(cmd, cwd=None, env=None, timeout=None, check=True, input=None):
    e = dict(os.environ)
    e.update(CARGO_ENV)
    if env:
        e.update(env)
    p = subprocess.run(cmd, cwd=cwd, env=e, capture_output=True, timeout=timeout, input=input)
    if check and p.returncode != 0:
        raise Infra(f"command failed ({p.returncode}): {cmd}\n{p.stdout.decode(errors='replace')[-3000:]}\n{p.stderr.decode(errors='replace')[-3000:]}")
    return p


# --------------------------------------------------------------------------- tree hash

_SRC_DIRS = ["pdl-compiler", "pdl-runtime", "pdl-derive", "pdl-tests", "Cargo.toml", "Cargo.lock", "doc", "examples"]


def tree_hash():
    """identifies /repo's working tree: HEAD + diff + untracked files"""
    h = hashlib.sha256()
    head = sh(["git", "-C", str(REPO), "rev-parse", "HEAD"]).stdout
    h.update(head)
    diff = sh(["git", "-C", str(REPO), "diff", "HEAD", "--", "."]).stdout
    h.update(diff)
    st = sh(["git", "-C", str(REPO), "status", "--porcelain", "--untracked-files=all"]).stdout.decode()
    for ln in sorted(st.splitlines()):
        if ln.startswith("??"):
            f = REPO / ln[3:].strip()
            if f.is_file() and "target" not in f.parts:
                h.update(ln.encode())
                h.update(f.read_bytes())
    return h.hexdigest()[:16]


def framework_hash():
    """identifies the framework itself (model + harness): cached results depend on it too"""
    h = hashlib.sha256()
    for base in (COQ / "theories", ROOT / "harness", ROOT / "oracle", ROOT / "corpus"):
        for f in sorted(base.rglob("*")):
            if f.is_file() and f.suffix in (".v", ".py", ".ml", ".rs", ".toml", ".sh", ".pdl", ".json", ".h", ".cc", ".java", ".md"):
                if "__pycache__" in f.parts:
                    continue
                # the judges (props/) and the developer tools only CONSUME stage data
                rel = f.relative_to(ROOT).parts
                if rel[:2] in (("harness", "props"), ("harness", "tools")):
                    continue
                # proofs and property files are checked by the proof gate; the oracle is
                # extracted from the models only (Oracle.v imports neither)
                if rel[:3] in (("coq", "theories", "Proofs"), ("coq", "theories", "Props")):
                    continue
                h.update(str(f.relative_to(ROOT)).encode())
                h.update(f.read_bytes())
    return h.hexdigest()[:16]


def stage_dir():
    d = CACHE / "stage" / f"{tree_hash()}-{framework_hash()}"
    d.mkdir(parents=True, exist_ok=True)
    return d


def prune_stages(keep):
    base = CACHE / "stage"
    if not base.exists():
        return
    ds = sorted((p for p in base.iterdir() if p.is_dir()), key=lambda p: p.stat().st_mtime, reverse=True)
    for p in ds[keep:]:
        shutil.rmtree(p, ignore_errors=True)


def cached_stage(name, compute):
    """compute() -> JSON-serialisable; cached per (tree, framework) under a lock"""
    with locked(f"stage-{name}"):
        d = stage_dir()
        f = d / f"{name}.json"
        if f.exists():
            try:
                return json.loads(f.read_text())
            except Exception:
                pass
        t0 = time.time()
        res = compute()
        tmp = d / f"{name}.json.tmp"
        tmp.write_text(json.dumps(res))
        tmp.rename(f)
        log(f"stage {name} computed in {time.time() - t0:.1f}s")
        prune_stages(3)
        return res


# --------------------------------------------------------------------------- builds

def build_pdlc():
    """pdlc from /repo's working tree (incremental)"""
    with locked("cargo-pdlc"):
        p = sh(["cargo", "build", "--offline", "-p", "pdl-compiler", "--features", "java"],
               cwd=REPO, env={"CARGO_TARGET_DIR": str(TARGET), "RUSTFLAGS": "-Awarnings"}, check=False, timeout=1800)
        if p.returncode != 0:
            raise Infra("pdlc does not build from /repo's working tree:\n" + p.stderr.decode(errors="replace")[-3000:])
    return PDLC


def build_coq(targets=None):
    """full .vo build of the development through coq_makefile (no -vos)"""
    with locked("coq"):
        mk = COQ / "Makefile.coq"
        cp = COQ / "_CoqProject"
        if not mk.exists() or mk.stat().st_mtime < cp.stat().st_mtime:
            sh(["coq_makefile", "-f", "_CoqProject", "-o", "Makefile.coq"], cwd=COQ)
        p = sh(["make", "-f", "Makefile.coq", "-j16"] + (targets or []), cwd=COQ, check=False, timeout=3000)
        return p.returncode == 0, (p.stdout.decode(errors="replace") + p.stderr.decode(errors="replace"))


def build_oracle():
    with locked("oracle"):
        src_hash = framework_hash()
        stamp = CACHE / "oracle" / "stamp"
        if stamp.exists() and stamp.read_text() == src_hash and (CACHE / "oracle" / "oracle").exists():
            return CACHE / "oracle" / "oracle"
        ok, out = build_coq(["theories/Oracle.vo"])
        if not ok:
            raise Infra("Coq model does not build:\n" + out[-3000:])
        sh([str(ROOT / "oracle" / "build.sh")], timeout=900)
        stamp.write_text(src_hash)
        return CACHE / "oracle" / "oracle"


# --------------------------------------------------------------------------- proof gate

BANNED = re.compile(r"\b(Admitted|admit|Axiom|Parameter|Conjecture|Abort All)\b|Unset Guard|bypass_check|type-in-type|impredicative-set|Admit Obligations|Unset Universe Checking|Unset Positivity")
ALLOWED_AXIOMS = set()   # target: every property theorem closed under the global context


def strip_comments(src):
    out, depth, i = [], 0, 0
    while i < len(src):
        if src.startswith("(*", i):
            depth += 1
            i += 2
        elif src.startswith("*)", i) and depth:
            depth -= 1
            i += 2
        else:
            if not depth:
                out.append(src[i])
            i += 1
    return "".join(out)


def banned_words():
    hits = []
    for f in sorted((COQ / "theories").rglob("*.v")):
        body = strip_comments(f.read_text())
        for m in BANNED.finditer(body):
            hits.append(f"{f.relative_to(COQ)}: {m.group(0)}")
        # Variable / Hypothesis outside sections
        depth = 0
        for ln in body.splitlines():
            s = ln.strip()
            if re.match(r"Section\b", s):
                depth += 1
            elif re.match(r"End\b", s) and depth:
                depth -= 1
            elif depth == 0 and re.match(r"(Variables?|Hypothes[ie]s|Context)\b", s):
                hits.append(f"{f.relative_to(COQ)}: {s[:40]} outside a section")
    return hits


def proof_gate(prop):
    """compile theories/Props/<prop>.v (and what it needs), collect its theorems and
    their Print Assumptions output. Returns dict(obligations=[{name, ok, assumptions}], ...)"""
    pf = COQ / "theories" / "Props" / f"{prop}.v"
    res = {"file": str(pf.relative_to(ROOT)), "obligations": [], "banned": banned_words(), "built": False, "log": ""}
    if not pf.exists():
        res["log"] = "no property file"
        return res
    ok, out = build_coq([f"theories/Props/{prop}.vo"])
    res["built"] = ok
    if not ok:
        res["log"] = out[-4000:]
        # which theorem failed? report all statements as not discharged
        for m in re.finditer(r"^\s*(?:Theorem|Lemma|Corollary)\s+(\w+)", strip_comments(pf.read_text()), re.M):
            res["obligations"].append({"name": m.group(1), "ok": False, "assumptions": []})
        return res
    # re-run coqc on the property file alone to capture Print Assumptions
    (CACHE / "gate").mkdir(exist_ok=True)
    p = sh(["coqc", "-Q", "theories", "PDL", "-o", str(CACHE / "gate" / f"{prop}.vo"), str(pf.relative_to(COQ))],
           cwd=COQ, check=False, timeout=1200)
    text = p.stdout.decode(errors="replace")
    res["log"] = (text + p.stderr.decode(errors="replace"))[-4000:]
    names = [m.group(1) for m in re.finditer(r"^\s*(?:Theorem|Lemma|Corollary)\s+(\w+)", strip_comments(pf.read_text()), re.M)]
    printed = re.split(r"(?=Closed under the global context|Axioms:)", text)
    blocks = [b for b in printed if b.startswith("Closed under") or b.startswith("Axioms:")]
    for i, n in enumerate(names):
        if i < len(blocks):
            b = blocks[i]
            if b.startswith("Closed under"):
                res["obligations"].append({"name": n, "ok": p.returncode == 0, "assumptions": []})
            else:
                ax = re.findall(r"^(\S+)\s*:", b[len("Axioms:"):], re.M)
                bad = [a for a in ax if a not in ALLOWED_AXIOMS]
                res["obligations"].append({"name": n, "ok": p.returncode == 0 and not bad, "assumptions": ax})
        else:
            res["obligations"].append({"name": n, "ok": False, "assumptions": ["<no Print Assumptions output>"]})
    return res


# --------------------------------------------------------------------------- known findings

def known_findings():
    f = ROOT / "known-findings.json"
    if not f.exists():
        return []
    return json.loads(f.read_text()).get("findings", [])


# --------------------------------------------------------------------------- verdict / evidence

TRUSTED_BASE = [
    "Coq 8.16.1 kernel (coqc; vm_compute used for finite sweeps and witnesses; no native_compute)",
    "extraction to OCaml with ExtrOcamlBasic only (no Extract Constant), ocamlfind ocamlopt 4.13.1, oracle/driver.ml string glue",
    "harness/lib/*.py generators, comparators and the Rust/Python/C++/Java drivers under harness/",
    "transcribed semantics of bytes::Buf/BufMut, core slices and integer casts (coq/theories/Rust/Decode.v, Encode.v)",
    "the correspondence between model and /repo is behavioural and sampled (see coverage.rule)",
]


def finish(prop, tier, seed, t0, gate, coverage, violations, known_hits, level="proof", assumptions=None):
    """write evidence, print verdict lines, return exit code"""
    EVIDENCE.mkdir(exist_ok=True)
    REPLAYS.mkdir(exist_ok=True)
    obligations = gate["obligations"] if gate else []
    n_ob = len(obligations)
    n_ok = sum(1 for o in obligations if o["ok"])
    cov = dict(coverage)
    cov.setdefault("obligations", n_ob)
    cov.setdefault("discharged", n_ok)
    cov.setdefault("checker_cmd", f"make -C coq -f Makefile.coq theories/Props/{prop}.vo && coqc -Q theories PDL theories/Props/{prop}.v  (Print Assumptions under every theorem)")
    tb = list(TRUSTED_BASE)
    axs = sorted({a for o in obligations for a in o["assumptions"]})
    tb.append("axioms reported by Print Assumptions: " + (", ".join(axs) if axs else "none (closed under the global context)"))
    cov.setdefault("trusted_base", tb)
    cov["theorems"] = [{"name": o["name"], "discharged": o["ok"], "assumptions": o["assumptions"]} for o in obligations]
    # proof gate failures are violations of the "no longer shown to hold" kind
    gate_violations = []
    if gate is not None:
        if gate["banned"]:
            gate_violations.append({"kind": "proof-gate", "what": "banned constructs: " + "; ".join(gate["banned"][:5])})
        if not gate["built"] or n_ok < n_ob or n_ob == 0:
            bad = [o["name"] for o in obligations if not o["ok"]]
            gate_violations.append({"kind": "proof-gate", "what": "theorems that no longer check: " + (", ".join(bad) or "(property file missing or not built)"), "log": gate["log"][-1500:]})
    code = 0
    lines = []
    for k in known_hits:
        lines.append(f"KNOWN-FINDING: property={prop} {k}")
    if os.environ.get("VERIF_DUMP_VIOLATIONS"):
        try:
            pathlib.Path(os.environ["VERIF_DUMP_VIOLATIONS"]).mkdir(parents=True, exist_ok=True)
            (pathlib.Path(os.environ["VERIF_DUMP_VIOLATIONS"]) / f"{prop}.violations.json").write_text(
                json.dumps(violations, indent=1, default=str))
        except OSError:
            pass
    for i, v in enumerate(violations[:5]):
        rp = REPLAYS / f"{prop}-{hashlib.sha256(json.dumps(v, sort_keys=True, default=str).encode()).hexdigest()[:10]}.json"
        rp.write_text(json.dumps(v, indent=1, default=str))
        lines.append(f"VIOLATION property={prop} replay={rp}")
        code = 1
    if not violations:
        for v in gate_violations:
            rp = REPLAYS / f"{prop}-gate.json"
            rp.write_text(json.dumps(v, indent=1))
            lines.append(f"VIOLATION property={prop} replay={rp} no-failing-input-found")
            code = 1
    ev = {
        "property_id": prop, "tier": tier, "seed": seed, "level": level,
        "coverage": cov, "wall_s": round(time.time() - t0, 2),
        "violations": len(violations) + (len(gate_violations) if not violations else 0),
        "assumptions": assumptions or [],
    }
    (EVIDENCE / f"{prop}.json").write_text(json.dumps(ev, indent=1, default=str))
    for ln in lines:
        print(ln, flush=True)
    return code
