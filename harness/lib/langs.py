"""The shared stage behind the other-backend properties (C07, C13, C14, C19 and the
Python/C++ parts of C15, C17): the same descriptions, values and byte strings as the
Rust stage go through the code generated for Python, C++ (ASan/UBSan and NDEBUG builds)
and Java, and through the reference semantics."""

import json
import random
import threading
import time

import common
import cxx_harness
import drv
import gen
import java_harness
import oracle
import pdlast
import py_harness
import rustcodec

LANGS = ("python", "cxx", "java")


def drv_binary():
    with common.locked("cargo-drv"):
        return drv.build(common.CACHE / "drv", common.TARGET_DRV)


def deps_of(env, ty, seen=None):
    seen = seen if seen is not None else []
    if ty in seen or ty not in env.decls:
        return seen
    d = env.decls[ty]
    if d.get("parent_id"):
        deps_of(env, d["parent_id"], seen)
    for f in d.get("fields", []):
        for k in ("type_id", "enum_id", "group_id"):
            if f.get(k):
                deps_of(env, f[k], seen)
    if ty not in seen:
        seen.append(ty)
    return seen


def probe_support(binary, ast, text, backend):
    """which declarations does the backend generate code for?  -> (unsupported: {id: why})"""
    env = gen.TypeEnv(ast)
    r = drv.run(binary, [("all", "generate", text, backend)])
    if r["all"][0] == "ok":
        return {}
    reqs = []
    ids = [d["id"] for d in ast["declarations"] if "id" in d]
    for i in ids:
        inc = ",".join(deps_of(env, i))
        reqs.append((i, "generate", text, backend, f"include={inc}"))
    res = drv.run(binary, reqs, timeout_s=60)
    bad = {}
    for i in ids:
        s, p = res.get(i, ("missing", None))
        if s != "ok":
            bad[i] = {"status": s, "detail": (p or {}) if isinstance(p, dict) else str(p)}
    # everything that depends on an unsupported declaration goes too
    changed = True
    while changed:
        changed = False
        for i in ids:
            if i not in bad and any(x in bad for x in deps_of(env, i) if x != i):
                bad[i] = {"status": "depends-on-unsupported"}
                changed = True
    return bad


def static_unsupported(ast, lang):
    """declarations outside what a backend's generated code can be compiled for without
    user-supplied glue, or inside a listed finding (see known-findings.json)"""
    env = gen.TypeEnv(ast)
    bad = {}
    for d in ast["declarations"]:
        if "id" not in d:
            continue
        i = d["id"]
        k = d["kind"]
        if "RxSlot" in i or "RxT" in i or "RxF" in i or "RxP" in i or "RxC" in i or "RxR" in i:
            bad[i] = {"status": "rust-family-only-shape"}
        if lang == "cxx":
            if k in ("custom_field_declaration", "checksum_declaration"):
                bad[i] = {"status": "needs-user-header"}
            if k == "struct_declaration":
                if d.get("parent_id") or env.children(d):
                    bad[i] = {"status": "struct-inheritance-unsupported"}
                if env.has_payload(d):
                    bad[i] = {"status": "struct-with-payload-does-not-compile"}
            if k == "enum_declaration" and d["tags"] and "range" in d["tags"][0]:
                bad[i] = {"status": "F31-default-initializer-names-a-range-tag"}
            if k == "packet_declaration" and d.get("parent_id") and not env.has_payload(env.decls[d["parent_id"]]):
                bad[i] = {"status": "F32-child-of-payloadless-parent-uses-undeclared-span"}
            if k in ("packet_declaration", "struct_declaration") and d.get("parent_id") and any(
                    f["kind"] == "size_field" and f.get("field_id") in ("_payload_", "_body_") for f in d.get("fields", [])) and any(
                    f["kind"] == "size_field" and f.get("field_id") in ("_payload_", "_body_")
                    for a in env.parents(d) for f in a.get("fields", [])):
                bad[i] = {"status": "F60-payload_size_-declared-twice"}
            if k in ("packet_declaration", "struct_declaration") and not d.get("fields"):
                bad[i] = {"status": "F32-declaration-without-fields-uses-undeclared-span"}
        if lang == "java":
            if k == "enum_declaration" and d["width"] >= 32:
                bad[i] = {"status": "F30-int-literal-too-large"}
            for f in d.get("fields", []):
                if f["kind"] == "fixed_field" and "width" in f and (f["width"] == 1 or f["width"] > 32):
                    bad[i] = {"status": "F33-fixed-scalar-of-1-or-more-than-32-bits-does-not-compile"}
    return bad


def close_dependents(ast, bad):
    env = gen.TypeEnv(ast)
    ids = [d["id"] for d in ast["declarations"] if "id" in d]
    changed = True
    while changed:
        changed = False
        for i in ids:
            if i not in bad and any(x in bad for x in deps_of(env, i) if x != i):
                bad[i] = {"status": "depends-on-unsupported"}
                changed = True
    return bad


def lang_modules(tier, seed):
    # the DESCRIPTIONS are those of the quick tier in both tiers: every new random
    # description costs a g++ -fsanitize build of a header of tens of thousands of lines and
    # reaches parts of the C++ / Java generators that emit code which does not compile (a
    # long tail, see F30-F33, F60); the thorough tier goes deeper in values and byte strings
    return rustcodec.modules_for("quick", seed)


def collect(tier, seed):
    def compute():
        t0 = time.time()
        pdlc = common.build_pdlc()
        common.build_oracle()
        binary = drv_binary()
        mods = lang_modules(tier, seed)
        out = {"modules": {}, "support": {}, "tier": tier, "seed": seed}
        excl = {}
        for name, ast in mods:
            text = pdlast.to_pdl(ast)
            for lang in LANGS:
                bad = probe_support(binary, ast, text, lang)
                for k, v in static_unsupported(ast, lang).items():
                    bad.setdefault(k, v)
                bad = close_dependents(ast, bad)
                out["support"].setdefault(name, {})[lang] = bad
                excl[(name, lang)] = sorted(bad)
        out["t_probe"] = time.time() - t0
        work = common.CACHE / ("lang-harness" if tier == "quick" else f"lang-harness-{tier}")
        handles, reports, errors = {}, {}, {}

        def hmods(lang):
            return [{"name": name, "pdl": pdlast.to_pdl(ast), "exclude": excl[(name, lang)]} for name, ast in mods]

        def b_py():
            try:
                handles["python"] = py_harness.build(hmods("python"), work / "py", pdlc)
            except Exception as e:   # noqa: BLE001
                errors["python"] = repr(e)

        def b_cxx():
            try:
                handles["cxx"] = cxx_harness.build(hmods("cxx"), work / "cxx", pdlc, sanitize=True, ndebug=False)
                handles["cxx_ndebug"] = cxx_harness.build(hmods("cxx"), work / "cxx", pdlc, sanitize=False, ndebug=True)
            except Exception as e:   # noqa: BLE001
                errors["cxx"] = repr(e)

        def b_java():
            try:
                handles["java"] = java_harness.build(hmods("java"), work / "java", pdlc)
            except Exception as e:   # noqa: BLE001
                errors["java"] = repr(e)

        threads = [threading.Thread(target=f) for f in (b_py, b_cxx, b_java)]
        with common.locked("lang-harness"):
            for t in threads:
                t.start()
            # plan + oracle while the compilers work
            plans = {}
            for name, ast in mods:
                env, values, rng = rustcodec.plan_module(name, ast, tier, seed)
                values = [v for v in values if v[2] == "wf"]
                sx = pdlast.to_sexp(ast)
                cases = []
                for i, (ty, v, cls) in enumerate(values):
                    cases.append(f"(re{i} ref-encode 200 {ty} {pdlast.value_sexp(v)})")
                o1 = rustcodec.run_oracle_sharded(sx, cases)
                inputs, seen = [], set()
                cap = 6 if tier == "quick" else 30
                for i, (ty, v, cls) in enumerate(values):
                    r = o1.get(f"re{i}")
                    if r and r[0] == "ok":
                        hx = r[1][0]
                        muts = gen.mutate_bytes(hx, rng, 2)
                        if len(muts) > cap:
                            muts = rng.sample(muts, cap)
                        for mm, origin in [(hx, "valid")] + [(x, "mutant") for x in muts]:
                            if (ty, mm) not in seen:
                                seen.add((ty, mm))
                                inputs.append([ty, mm, origin])
                for d in env.codec_types():
                    for hx in gen.random_bytes(rng, 2 if tier == "quick" else 8):
                        if (d["id"], hx) not in seen:
                            seen.add((d["id"], hx))
                            inputs.append([d["id"], hx, "random"])
                cases = [f'(rf_{j} ref-decode {rustcodec.fuel_for(hx)} {ty} "{hx}")' for j, (ty, hx, o) in enumerate(inputs)]
                enums = [d for d in ast["declarations"] if d["kind"] == "enum_declaration"]
                for e in enums:
                    for x in rustcodec.enum_probe_points(e):
                        cases.append(f"(ep_{e['id']}_{x} enum-rust 0 {e['id']} {x})")
                o2 = rustcodec.run_oracle_sharded(sx, cases)
                plans[name] = (values, inputs, enums)
                out["modules"][name] = {"values": values, "inputs": inputs, "enums": [e["id"] for e in enums],
                                        "oracle": {k: list(v) for k, v in {**o1, **o2}.items()}, "impl": {}}
            out["t_oracle"] = time.time() - t0
            for t in threads:
                t.join()
        out["build_errors"] = errors
        for lang, sub in (("python", "py"), ("cxx", "cxx"), ("java", "java")):
            f = work / sub / "build_report.json"
            if f.exists():
                rep = json.loads(f.read_text())
                reports[lang] = {k: rep.get(k) for k in ("failed_modules", "uncompilable_modules", "built_modules", "unsupported_types")}
        out["report"] = reports
        out["t_build"] = time.time() - t0
        runners = {"python": py_harness.run, "cxx": cxx_harness.run, "cxx_ndebug": cxx_harness.run, "java": java_harness.run}
        for name, (values, inputs, enums) in plans.items():
            for key, handle in handles.items():
                lang = "cxx" if key.startswith("cxx") else key
                bad = set(excl[(name, lang)])
                reqs = []
                for i, (ty, v, cls) in enumerate(values):
                    if ty not in bad:
                        reqs.append((f"e{i}", name, ty, "encode", json.dumps(v)))
                for j, (ty, hx, origin) in enumerate(inputs):
                    if ty not in bad:
                        reqs.append((f"f{j}", name, ty, "decode_full", hx))
                if key != "cxx_ndebug":
                    for e in enums:
                        if e["id"] in bad:
                            continue
                        for x in rustcodec.enum_probe_points(e):
                            reqs.append((f"ep_{e['id']}_{x}", name, e["id"], "enum_from", str(x)))
                res = runners[key](handle, reqs, timeout_s=60)
                out["modules"][name]["impl"][key] = {k: list(v) for k, v in res.items()}
        out["t_total"] = time.time() - t0
        return out
    return common.cached_stage(f"langs-{tier}-{seed}", compute)
