"""Differential test of the Coq model of pdl's semantic analyzer
(coq/theories/Analyzer/{Passes,Analyze}.v, oracle op `analyze`) against the real
`analyzer::analyze` (in-process driver, harness/drv).

    corpus(seed, n)          -> list of (name, ast)         generated descriptions
    run(descriptions)        -> list of disagreements        (dicts)
    main: python3 analyzer_diff.py [--seed S] [--n N]

A description is a pdlast dict.  It is printed as PDL text, PARSED BY THE
IMPLEMENTATION (`parse` op), and the parsed AST is what the model gets (so both sides
see the same tree whatever the printer does).  Compared: the verdict
(accepted / rejected / panic), the diagnostic codes in order, the panic line in
analyzer.rs, and for accepted files the analyzed AST (as the s-expression text of
pdlast.to_sexp).  Everything random comes from one random.Random(seed).
"""
import collections
import copy
import json
import os
import pathlib
import random
import subprocess
import sys
from concurrent.futures import ThreadPoolExecutor

sys.path.insert(0, str(pathlib.Path(__file__).resolve().parent))
import drv            # noqa: E402
import pdlast         # noqa: E402
from pdlast import (constraint, scalar, typedef, array, size_f, count_f, elementsize_f,  # noqa: E402
                    payload, body, fixed_s, fixed_e, reserved, padding, group_f, tag_v, tag_r,
                    tag_o, enum, packet, struct, group, custom_field, checksum, file)

ROOT = pathlib.Path(__file__).resolve().parents[2]
ORACLE = ROOT / ".cache" / "oracle" / "oracle"
DRV_WORK = ROOT / ".cache" / "drv"
DRV_TARGET = ROOT / ".cache" / "target-drv"

ALL_CODES = [f"E{i}" for i in list(range(1, 50)) + [51, 52, 53]]


def test_decl(type_id):
    return {"kind": "test_declaration", "type_id": type_id, "test_cases": []}


def checksum_start(field_id):
    return {"kind": "checksum_field", "field_id": field_id, "cond": None}


def with_cond(f, cond):
    f = dict(f)
    f["cond"] = cond
    return f


# --------------------------------------------------------------------------- running both sides

def run_model(sexps, chunk=100, workers=8):
    """sexps: list of file s-expressions -> list of (status, [payload parts])."""
    def one(chunk_items):
        inp = "".join(f"{s}\n(c{i} analyze 0 -)\n" for i, s in chunk_items)
        p = subprocess.run(["/bin/sh", "-c", f"ulimit -s unlimited 2>/dev/null; exec {ORACLE}"],
                           input=inp.encode(), capture_output=True, timeout=900)
        out = {}
        for ln in p.stdout.decode().split("\n"):
            if not ln or ln.startswith("#\t"):
                continue
            parts = ln.split("\t")
            out[parts[0]] = (parts[1], parts[2:])
        res = []
        for i, _ in chunk_items:
            res.append((i, out.get(f"c{i}", ("crash", [p.stderr.decode()[-300:]]))))
        return res
    items = list(enumerate(sexps))
    chunks = [items[i:i + chunk] for i in range(0, len(items), chunk)]
    results = [None] * len(sexps)
    with ThreadPoolExecutor(max_workers=workers) as ex:
        for res in ex.map(one, chunks):
            for i, r in res:
                results[i] = r
    return results


_binary = None


def drv_binary():
    global _binary
    if _binary is None:
        import common
        with common.locked("cargo-drv"):
            _binary = drv.build(DRV_WORK, DRV_TARGET)
    return _binary


def run_impl(texts, op, workers=8, chunk=200):
    """texts: list of PDL sources -> list of (status, payload) of driver op `op`."""
    b = drv_binary()
    items = list(enumerate(texts))
    chunks = [items[i:i + chunk] for i in range(0, len(items), chunk)]

    def one(chunk_items):
        r = drv.run(b, [(f"c{i}", op, t) for i, t in chunk_items], timeout_s=60)
        return [(i, r[f"c{i}"]) for i, _ in chunk_items]
    results = [None] * len(texts)
    with ThreadPoolExecutor(max_workers=workers) as ex:
        for res in ex.map(one, chunks):
            for i, r in res:
                results[i] = r
    return results


def impl_outcome(status, payload):
    """-> ('ok', sexp) | ('rejected', 'E1,E2') | ('panic', line:int|None, message) | ('other', ..)"""
    if status == "ok":
        ast = pdlast.strip_loc(payload["ast"])
        return ("ok", pdlast.to_sexp(ast), impl_schema(ast, payload.get("schema")))
    if status == "err" and payload.get("stage") == "analyze":
        return ("rejected", ",".join(d["code"] for d in payload["diagnostics"]))
    if status == "panic":
        loc = payload.get("location") or ""
        line = None
        if "analyzer.rs:" in loc:
            try:
                line = int(loc.rsplit("analyzer.rs:", 1)[1].split(":")[0])
            except ValueError:
                pass
        return ("panic", line, payload.get("message"), loc)
    return ("other", status, json.dumps(payload)[:300])


def impl_schema(ast, schema):
    """the implementation's schema in the text format of the model's reply:
    (decl sizes, field sizes), declarations in analyzed order"""
    if not schema:
        return None
    decls, fields = [], []
    for d in ast["declarations"]:
        e = schema["decls"].get(d.get("id"))
        if e is None:
            return None
        decls.append(f"{d['id']}={e['decl_size']}/{e['parent_size']}/{e['payload_size']}")
        fields.append(",".join(str(x["field_size"]) for x in e["fields"]))
    return (";".join(decls), ";".join(fields))


ANALYZER_RS = pathlib.Path("/repo/pdl-compiler/src/analyzer.rs")

# Panic sites of the model ("<line>:<function>:<expression>") re-located in the
# CURRENT analyzer.rs by a piece of source text: (text, which occurrence, line offset).
# The line prefix in the Coq sources is only the position at the time of writing;
# other people land fixes in /repo that shift the file.
SITE_TEXT = {
    "Size::add:lhs + rhs": ("Size::Static(lhs + rhs)", 1, 0),
    "Size::mul:lhs * rhs": ("Size::Static(lhs) => Size::Static(lhs * rhs)", 1, 0),
    "annotate_decl:8 * *size": ("Some(8 * *size)", 1, 0),
    "annotate_field:scope.get(type_id).unwrap()": ("let type_key = scope.get(type_id).unwrap();", 1, 0),
    "annotate_field:scope.get(type_id).unwrap() (array element)": ("let type_key = scope.get(type_id).unwrap();", 2, 0),
    "annotate_field:*size * *width": ("Size::Static(*size * *width)", 1, 0),
    "Schema::decl_size:self.decl_size[&key]": ("self.decl_size[&key]", 1, 0),
    "check_constraint:constraint.value.unwrap()": ("constraint.value.unwrap()", 2, 0),
    "check_constraint:unreachable!()": ("Some(_) => unreachable!()", 1, 0),
    "check_field_offsets:offset + size": ("Size::Static(size) => offset + size", 1, 0),
    "check_decl_sizes:static_size += ..": ("static_size += schema.field_size", 1, 0),
    "inline_fields:constraints.get(id).unwrap().value.unwrap()": ("constraints.get(id).unwrap().value.unwrap()", 1, 0),
    "inline_fields:constraint.tag_id.unwrap()": ("and_then(|constraint| constraint.tag_id.clone())", 1, 1),
    "desugar_flags:field.id().unwrap()": ("field.id().unwrap().to_owned(), cond.value.unwrap()", 1, 0),
    "desugar_flags:cond.value.unwrap()": ("field.id().unwrap().to_owned(), cond.value.unwrap()", 1, 0),
}

_site_lines = None


def site_line(site):
    """the line of a model panic site in the current analyzer.rs"""
    global _site_lines
    if _site_lines is None:
        _site_lines = {}
        try:
            src = ANALYZER_RS.read_text().split("\n")
        except OSError:
            src = []
        for key, (text, nth, off) in SITE_TEXT.items():
            hits = [i + 1 for i, ln in enumerate(src) if text in ln]
            if len(hits) >= nth:
                _site_lines[key] = hits[nth - 1] + off
    prefix, _, key = site.partition(":")
    if key in _site_lines:
        return _site_lines[key]
    try:
        return int(prefix)
    except ValueError:
        return None


def model_outcome(status, parts):
    if status == "ok":
        parts = list(parts) + [""] * 4
        return ("ok", parts[0], parts[1], (parts[2], parts[3]))
    if status == "rejected":
        return ("rejected", parts[0] if parts else "")
    if status == "panic":
        site = parts[0] if parts else ""
        return ("panic", site_line(site), site)
    return ("other", status, parts)


def run(descriptions, stats=None):
    """descriptions: list of (name, ast).  Returns the list of disagreements; fills
    `stats` (a dict) with the distribution of the implementation's verdicts."""
    names = [n for n, _ in descriptions]
    texts = [pdlast.to_pdl(a) for _, a in descriptions]
    parsed = run_impl(texts, "parse")
    analyzed = run_impl(texts, "analyze")
    keep, sexps = [], []
    parse_errors = []
    for i, (st, p) in enumerate(parsed):
        if st == "ok":
            keep.append(i)
            sexps.append(pdlast.to_sexp(pdlast.strip_loc(p["ast"])))
        else:
            parse_errors.append((names[i], texts[i], st, json.dumps(p)[:200]))
    model = run_model(sexps)
    dis = []
    dist = collections.Counter()
    first_codes = collections.Counter()
    all_codes = collections.Counter()
    panics = collections.defaultdict(list)
    for k, i in enumerate(keep):
        io = impl_outcome(*analyzed[i])
        mo = model_outcome(*model[k])
        agree = False
        if io[0] == "ok":
            dist["accepted"] += 1
            # Schema: declaration sizes must be equal.  Field sizes are compared up to
            # dynamic ~ unknown: the implementation keys `field_size` by field KEY and
            # the copies of an inlined group field share their key, so a copy shows the
            # size computed for the last declaration that inlines the group (it can
            # only differ in dynamic vs unknown, which no analyzer pass distinguishes).
            def loose(t):
                return t.replace("unknown", "dynamic")
            agree = (mo[0] == "ok" and mo[1] == io[1] and mo[2] == "schema:agree"
                     and (io[2] is None or (io[2][0] == mo[3][0] and loose(io[2][1]) == loose(mo[3][1]))))
        elif io[0] == "rejected":
            dist["rejected"] += 1
            codes = io[1].split(",")
            first_codes[codes[0]] += 1
            for c in set(codes):
                all_codes[c] += 1
            agree = mo[0] == "rejected" and mo[1] == io[1]
        elif io[0] == "panic":
            dist["panic"] += 1
            panics[(io[1], io[2])].append((len(texts[i]), names[i], texts[i]))
            agree = mo[0] == "panic" and mo[1] is not None and mo[1] == io[1]
        else:
            dist["other:" + str(io[1])] += 1
        if not agree:
            dis.append({"name": names[i], "pdl": texts[i], "impl": io, "model": mo, "sexp": sexps[k]})
    if stats is not None:
        stats["n"] = len(descriptions)
        stats["parse_errors"] = parse_errors
        stats["dist"] = dist
        stats["first_codes"] = first_codes
        stats["all_codes"] = all_codes
        stats["panics"] = panics
    return dis


# GENERATORS

# --------------------------------------------------------------------------- well-formed bases

class Names:
    def __init__(self):
        self.n = collections.Counter()

    def new(self, stem):
        self.n[stem] += 1
        return f"{stem}{self.n[stem]}"


def gen_enum(rng, id, width=None):
    """a well-formed enum of a random shape"""
    w = width if width is not None else rng.choice([1, 2, 3, 4, 7, 8, 8, 8, 12, 16, 24, 32, 33, 63, 64])
    mx = (1 << w) - 1
    tags = []
    shape = rng.choice(["values", "values", "open", "ranges", "ranges_open", "full_range"])
    if shape in ("values", "open") or mx < 7:
        vals = sorted({0, mx, rng.randrange(mx + 1), rng.randrange(mx + 1)} if rng.random() < 0.7
                      else {rng.randrange(mx + 1)})
        tags = [tag_v(f"V{i}", v) for i, v in enumerate(vals)]
        if shape in ("open", "ranges_open") and rng.random() < 0.8:
            tags.insert(rng.randrange(len(tags) + 1), tag_o("Other"))
    elif shape == "full_range":
        tags = [tag_r("R", 0, mx, [tag_v("RA", rng.randrange(mx + 1))] if rng.random() < 0.5 else [])]
        if rng.random() < 0.5:
            tags.append(tag_o("Other"))
    else:
        a = rng.randrange(1, max(2, mx // 2))
        b = rng.randrange(a + 1, mx)
        tags = [tag_v("A", 0), tag_r("R", a, b, [tag_v("RA", a), tag_v("RB", b)] if rng.random() < 0.6 else [])]
        if b + 1 <= mx:
            tags.append(tag_v("Z", mx) if rng.random() < 0.5 or b + 1 == mx else tag_r("S", b + 1, mx, []))
        if shape == "ranges_open":
            tags.append(tag_o("Other"))
        if rng.random() < 0.3:
            rng.shuffle(tags)
    return enum(id, w, tags)


def value_tags(e):
    return [t for t in e["tags"] if "value" in t]


class Base:
    """A well-formed description assembled from random pieces; remembers what it contains
    so that mutators can aim."""

    def __init__(self, rng):
        self.rng = rng
        self.names = Names()
        self.decls = []
        self.enums = []
        self.structs = []      # static-size structs usable as typedef / array element
        self.customs = []
        self.groups = []
        self.packets = []
        self.build()

    def add(self, d):
        self.decls.append(d)
        return d

    def some_enum(self, byte=False):
        c = [e for e in self.enums if not byte or e["width"] % 8 == 0]
        return self.rng.choice(c) if c else None

    def bitfields(self, total, prefix="b", allow_enum=True):
        """bit-field fields summing to `total` bits"""
        rng = self.rng
        out = []
        left = total
        i = 0
        while left > 0:
            w = rng.randint(1, min(left, 64)) if rng.random() < 0.6 else left if left <= 64 else 8
            left -= w
            i += 1
            k = rng.random()
            es = [e for e in self.enums if e["width"] == w and value_tags(e)]
            if k < 0.5:
                out.append(scalar(f"{prefix}{i}", w))
            elif k < 0.6 and es and allow_enum:
                out.append(typedef(f"{prefix}{i}", rng.choice(es)["id"]))
            elif k < 0.7:
                out.append(reserved(w))
            elif k < 0.8:
                out.append(fixed_s(w, rng.choice([0, (1 << w) - 1, rng.randrange(1 << w)])))
            elif k < 0.9 and es:
                e = rng.choice(es)
                out.append(fixed_e(e["id"], rng.choice(value_tags(e))["id"]))
            else:
                out.append(scalar(f"{prefix}{i}", w))
        return out

    def array_piece(self, id):
        """[size/count/elementsize fields..., array, padding?] all byte aligned"""
        rng = self.rng
        kind = rng.choice(["w", "w", "enum", "struct", "custom"])
        kw = {}
        if kind == "w":
            kw = dict(width=rng.choice([8, 16, 24, 32, 64]))
        elif kind == "enum" and self.some_enum(byte=True):
            kw = dict(type_id=self.some_enum(byte=True)["id"])
        elif kind == "struct" and self.structs:
            kw = dict(type_id=rng.choice(self.structs)["id"])
        elif kind == "custom" and self.customs:
            kw = dict(type_id=rng.choice(self.customs)["id"])
        else:
            kw = dict(width=8)
        dim = rng.choice(["static", "count", "size", "none", "size_mod"])
        pre = []
        if dim == "static":
            arr = array(id, size=rng.choice([0, 1, 3, 16]), **kw)
        elif dim == "count":
            pre = [count_f(id, 8)]
            arr = array(id, **kw)
        elif dim == "size":
            pre = [size_f(id, rng.choice([8, 16]))]
            arr = array(id, **kw)
        elif dim == "size_mod":
            pre = [size_f(id, 8)]
            arr = array(id, size_modifier="+2", **kw)
        else:
            arr = array(id, **kw)
        if "type_id" in kw and rng.random() < 0.2 and dim != "static":
            pre.insert(0, elementsize_f(id, 8))
        post = [padding(rng.choice([1, 16, 64]))] if rng.random() < 0.25 else []
        return pre + [arr] + post

    def optional_piece(self, prefix):
        rng = self.rng
        n = rng.randint(1, 3)
        flags = [scalar(f"{prefix}c{i}", 1) for i in range(n)]
        head = flags + ([reserved(8 - n)] if rng.random() < 0.7 else [scalar(f"{prefix}r", 8 - n)])
        opts = []
        for i in range(rng.randint(1, 4)):
            c = constraint(f"{prefix}c{rng.randrange(n)}", rng.choice([0, 1]))
            if rng.random() < 0.6 or not (self.structs or self.enums):
                opts.append(scalar(f"{prefix}o{i}", rng.choice([8, 16, 24, 64]), cond=c))
            elif self.structs and rng.random() < 0.5:
                opts.append(typedef(f"{prefix}o{i}", rng.choice(self.structs)["id"], cond=c))
            elif self.some_enum(byte=True):
                opts.append(typedef(f"{prefix}o{i}", self.some_enum(byte=True)["id"], cond=c))
        return head + opts

    def pieces(self, prefix, payload_kind=None, n_pieces=None):
        """a well-formed, byte-aligned field list, as a list of pieces (field lists)
        between which other byte-aligned things can be inserted"""
        rng = self.rng
        out = []
        for j in range(n_pieces if n_pieces is not None else rng.randint(1, 4)):
            k = rng.random()
            p = f"{prefix}{j}"
            if k < 0.45:
                out.append(self.bitfields(8 * rng.randint(1, 3), prefix=p))
            elif k < 0.65:
                out.append(self.array_piece(p + "a"))
            elif k < 0.75:
                out.append(self.optional_piece(p))
            elif k < 0.85 and self.structs:
                out.append([typedef(p + "s", rng.choice(self.structs)["id"])])
            elif k < 0.92 and self.customs:
                out.append([typedef(p + "k", rng.choice(self.customs)["id"])])
            else:
                out.append([scalar(p + "x", 8 * rng.randint(1, 8))])
        if payload_kind:
            pf = payload(rng.choice([None, None, "+1"])) if payload_kind == "payload" else body()
            sid = "_payload_" if payload_kind == "payload" else "_body_"
            ins = [pf]
            if rng.random() < 0.5:
                ins = [size_f(sid, 8)] + ins
            out.insert(rng.randrange(len(out) + 1), ins)
        return out

    def fields(self, prefix, payload_kind=None, n_pieces=None):
        return [f for p in self.pieces(prefix, payload_kind, n_pieces) for f in p]

    def build(self):
        rng = self.rng
        for _ in range(rng.randint(1, 3)):
            e = gen_enum(rng, self.names.new("E"))
            self.enums.append(self.add(e))
        if rng.random() < 0.6:
            self.enums.append(self.add(gen_enum(rng, self.names.new("E"), 8)))
        for _ in range(rng.randint(0, 2)):
            self.customs.append(self.add(custom_field(self.names.new("C"), rng.choice([8, 16, 32, None]))))
        if rng.random() < 0.3:
            self.add(checksum(self.names.new("K"), rng.choice([8, 16])))
        for _ in range(rng.randint(0, 2)):
            s = struct(self.names.new("S"), self.fields("s", n_pieces=rng.randint(1, 2)))
            self.structs.append(self.add(s))
        # groups, nested up to depth 3, remembering constrainable fields
        self.group_info = {}
        for depth in range(rng.randint(0, 3)):
            gid = self.names.new("G")
            ps = []
            cons = []   # (field id, kind, info)
            w = rng.choice([8, 16])
            ps.append([scalar(gid + "x", w)])
            cons.append((gid + "x", "scalar", w))
            e = self.some_enum(byte=True)
            if e and value_tags(e) and rng.random() < 0.7:
                ps.append([typedef(gid + "t", e["id"])])
                cons.append((gid + "t", "enum", e))
            if rng.random() < 0.4:
                ps.append(self.optional_piece(gid))
            if rng.random() < 0.4:
                ps.append(self.array_piece(gid + "a"))
            if self.groups and rng.random() < 0.8:
                inner = self.groups[-1]
                ps.insert(rng.randrange(len(ps) + 1),
                          [group_f(inner["id"], self.pick_constraints(self.group_info[inner["id"]]))])
            fs = [f for p in ps for f in p]
            g = self.add(group(gid, fs))
            self.group_info[gid] = cons
            self.groups.append(g)
        # packets with inheritance chains
        for _ in range(rng.randint(1, 3)):
            pk = rng.choice([None, "payload", "body", "payload"])
            kw = rng.choice([packet, packet, struct])
            pid = self.names.new("P" if kw is packet else "T")
            ps = self.pieces(pid.lower(), payload_kind=pk)
            if self.groups and rng.random() < 0.6:
                g = rng.choice(self.groups)
                ps.insert(rng.randrange(len(ps) + 1),
                          [group_f(g["id"], self.pick_constraints(self.group_info[g["id"]]))])
            fs = [f for p in ps for f in p]
            parent = self.add(kw(pid, fs))
            self.packets.append(parent)
            cur = parent
            depth = 0
            while pk and depth < 3 and rng.random() < 0.7:
                depth += 1
                cid = self.names.new("P" if kw is packet else "T")
                cpk = rng.choice([None, pk])
                cs = self.parent_constraints(cur)
                child = self.add(kw(cid, self.fields(cid.lower(), payload_kind=cpk,
                                                    n_pieces=rng.randint(0, 2)),
                                    parent_id=cur["id"], constraints=cs))
                self.packets.append(child)
                if not cpk:
                    break
                cur = child
        if rng.random() < 0.3:
            pk = [p for p in self.packets if p["kind"] == "packet_declaration"]
            if pk:
                self.add(test_decl(rng.choice(pk)["id"]))
        if rng.random() < 0.7:
            rng.shuffle(self.decls)

    def pick_constraints(self, cons):
        rng = self.rng
        out = []
        for fid, kind, info in cons:
            if rng.random() < 0.5:
                if kind == "scalar":
                    out.append(constraint(fid, rng.choice([0, (1 << info) - 1, rng.randrange(1 << info)])))
                else:
                    out.append(constraint(fid, tag_id=rng.choice(value_tags(info))["id"]))
        return out

    def chain(self, d):
        by = {x["id"]: x for x in self.decls if "id" in x}
        out = [d]
        while out[-1].get("parent_id") in by:
            out.append(by[out[-1]["parent_id"]])
        return out

    def parent_constraints(self, parent):
        """well-formed constraints on scalar / enum fields of the parent chain that are
        not constrained yet, declared directly in packets (not via groups), and that are
        not flags"""
        rng = self.rng
        by = {x["id"]: x for x in self.decls if "id" in x}
        chain = self.chain(parent)
        used = {c["id"] for d in chain for c in d.get("constraints", [])}
        flags = {f["cond"]["id"] for d in chain for f in d["fields"] if f.get("cond")}
        out = []
        seen = set()
        for d in chain:
            for f in d["fields"]:
                fid = f.get("id")
                if fid is None or fid in used or fid in flags or fid in seen or f.get("cond"):
                    continue
                seen.add(fid)
                if rng.random() < 0.5:
                    continue
                if f["kind"] == "scalar_field":
                    w = f["width"]
                    out.append(constraint(fid, rng.choice([0, (1 << w) - 1, rng.randrange(1 << w)])))
                elif f["kind"] == "typedef_field" and by.get(f["type_id"], {}).get("kind") == "enum_declaration":
                    vt = value_tags(by[f["type_id"]])
                    if vt:
                        out.append(constraint(fid, tag_id=rng.choice(vt)["id"]))
        return out

    def file(self):
        return file(self.rng.choice(["little_endian", "big_endian"]), copy.deepcopy(self.decls))


def wellformed(rng):
    return Base(rng).file()


# --------------------------------------------------------------------------- catalogue of violations
# One generator per error code, after the test_e* unit tests of analyzer.rs, with
# variations of context (packet / child packet / struct / group), position (first /
# last field), inheritance and group indirection, and numeric boundaries.

def boundary_width(rng):
    return rng.choice([1, 2, 3, 7, 8, 9, 15, 16, 17, 31, 32, 33, 63, 64, rng.randint(1, 64)])


def aligned_filler(rng, tag):
    return rng.choice([[], [scalar(tag + "f", 8)], [scalar(tag + "f", 3), reserved(5)],
                       [scalar(tag + "f", 16), fixed_s(8, 7)], [array(tag + "f", width=8, size=2)]])


def host(rng, fields, name="A", pre=None, post=None, kinds=None):
    """declarations holding `fields` in a random context"""
    kind = rng.choice(kinds or ["packet", "struct", "child", "group", "grandchild", "nested_group"])
    pre = aligned_filler(rng, "pre") if pre is None else pre
    post = aligned_filler(rng, "post") if post is None else post
    fs = pre + list(fields) + post
    if kind == "packet":
        return [packet(name, fs)]
    if kind == "struct":
        return [struct(name, fs)]
    if kind == "child":
        kw = rng.choice([packet, struct])
        return [kw("Par", [scalar("pp", 8), payload()]), kw(name, fs, parent_id="Par")]
    if kind == "grandchild":
        return [packet("Par", [scalar("pp", 8), payload()]),
                packet("Mid", [scalar("mm", 8), body()], parent_id="Par", constraints=[constraint("pp", 1)]),
                packet(name, fs, parent_id="Mid")]
    if kind == "group":
        return [group("Grp", fs), packet(name, [group_f("Grp")])]
    return [group("Grp", fs), group("Outer", [scalar("oo", 8), group_f("Grp")]),
            packet(name, [group_f("Outer"), scalar("zz", 8)])]


def finish(rng, decls):
    decls = list(decls)
    if rng.random() < 0.5:
        rng.shuffle(decls)
    return file(rng.choice(["little_endian", "big_endian"]), decls)


def any_decl(rng, id):
    return rng.choice([
        lambda: packet(id, [scalar("a", 8)]), lambda: struct(id, []), lambda: struct(id, [scalar("a", 8)]),
        lambda: enum(id, 8, [tag_v("X", 0), tag_v("Y", 1)]), lambda: group(id, [scalar("g", 8)]),
        lambda: custom_field(id, rng.choice([8, None])), lambda: checksum(id, 8)])()


def t_e1(rng):
    ds = [any_decl(rng, "A"), any_decl(rng, "A")]
    if rng.random() < 0.4:
        ds.insert(rng.randrange(3), any_decl(rng, rng.choice(["A", "B"])))
    return finish(rng, ds)


def t_e2(rng):
    k = rng.randrange(9)
    kw = rng.choice([packet, struct])
    if k == 0:
        ds = [kw("A", [], parent_id="A")]
    elif k == 1:
        ds = [kw("A", [], parent_id="B"), kw("B", [payload()], parent_id="A")]
    elif k == 2:
        ds = [struct("B", [typedef("x", "B")])]
    elif k == 3:
        ds = [struct("B", [array("x", type_id="B", size=rng.choice([0, 8]))])]
    elif k == 4:
        ds = [group("C", [group_f("C", [constraint("x", 1)])])]
    elif k == 5:
        ds = [struct("A", [typedef("x", "B")]), struct("B", [scalar("p", 8), typedef("y", "C")]),
              struct("C", [array("z", type_id="A", size=2)])]
    elif k == 6:
        ds = [group("G", [scalar("a", 8), group_f("H")]), group("H", [group_f("G")]), packet("P", [group_f("G")])]
    elif k == 7:   # valid: recursion through an unsized array
        ds = [struct("B", [scalar("t", 8), array("x", type_id="B")])]
    else:          # struct reaching itself through a group and a parent
        ds = [struct("A", [group_f("G"), payload()]), group("G", [typedef("x", "B")]),
              struct("B", [scalar("q", 8)], parent_id="A")]
    return finish(rng, ds)


def t_e3(rng):
    return finish(rng, host(rng, [group_f("C", rng.choice([[], [constraint("x", 1)]]))]))


def t_e4(rng):
    other = rng.choice([struct("C", [scalar("x", 8)]), enum("C", 8, [tag_v("X", 0)]),
                        packet("C", [scalar("x", 8)]), custom_field("C", 8), checksum("C", 8)])
    return finish(rng, [other] + host(rng, [group_f("C", rng.choice([[], [constraint("x", 1)]]))]))


def t_e5(rng):
    f = rng.choice([typedef("x", "B"), array("x", type_id="B"), array("x", type_id="B", size=3),
                    typedef("x", "B", cond=None)])
    return finish(rng, host(rng, [f]))


def t_e6(rng):
    f = rng.choice([typedef("x", "B"), array("x", type_id="B"), array("x", type_id="B", size=3)])
    return finish(rng, [packet("B", [scalar("x", 8)])] + host(rng, [f]))


def t_e7(rng):
    kw = rng.choice([packet, struct])
    return finish(rng, [kw("A", aligned_filler(rng, "a"), parent_id="B",
                           constraints=rng.choice([[], [constraint("x", 1)]]))])


def t_e8(rng):
    kw = rng.choice([packet, struct])
    others = [enum("B", 8, [tag_v("X", 0)]), group("B", [scalar("x", 1)]), custom_field("B", 8), checksum("B", 8)]
    others.append(struct("B", []) if kw is packet else packet("B", []))
    return finish(rng, [rng.choice(others), kw("A", aligned_filler(rng, "a"), parent_id="B")])


def t_e9(rng):
    return finish(rng, [packet("P", [scalar("a", 8)]), test_decl("Q")])


def t_e10(rng):
    return finish(rng, [rng.choice([struct("A", []), group("A", [scalar("x", 8)]),
                                    enum("A", 8, [tag_v("X", 1)]), custom_field("A", 8)]), test_decl("A")])


def named_field(rng, id):
    return rng.choice([scalar(id, 8), typedef(id, "En"), array(id, width=8), array(id, type_id="En", size=2),
                       scalar(id, 16)])


def t_e11(rng):
    fs = [named_field(rng, "x"), named_field(rng, "x")]
    if rng.random() < 0.3:
        fs.append(named_field(rng, "x"))
    if rng.random() < 0.5:
        fs.insert(1, scalar("y", 8))
    return finish(rng, [enum("En", 8, [tag_v("X", 0)])] + host(rng, fs))


def t_enum(rng, code):
    w = boundary_width(rng)
    mx = (1 << w) - 1
    over = min(mx + 1, (1 << 64) - 1)
    tags = None
    if code == 12:
        tags = rng.choice([
            [tag_v("X", 0), tag_v("X", 1 & mx)], [tag_v("X", 0), tag_r("A", 0, mx, [tag_v("X", mx)])],
            [tag_v("X", mx), tag_r("X", 0, max(1, mx - 1) if mx > 1 else 1, [])], [tag_v("X", 0), tag_o("X")],
            [tag_o("X"), tag_v("X", 0), tag_v("X", mx)], [tag_r("A", 0, mx, [tag_v("X", 0), tag_v("X", mx)])]])
    elif code == 13:
        tags = rng.choice([[tag_v("X", mx), tag_v("Y", mx)], [tag_r("A", 0, mx, [tag_v("X", 1 & mx), tag_v("Y", 1 & mx)])],
                           [tag_v("X", 0), tag_v("Y", mx), tag_v("Z", 0), tag_v("T", 0)],
                           [tag_v("X", mx), tag_r("A", 0, mx, [tag_v("Y", mx)])]])
    elif code == 14:
        v = rng.choice([mx, over, over + 1 if over + 1 < (1 << 64) else over, (1 << 64) - 1])
        lo = rng.randrange(0, max(1, mx))
        hi = rng.randrange(lo, mx + 1)
        tags = rng.choice([[tag_v("X", v)], [tag_v("A", 0), tag_r("X", lo, hi, [tag_v("B", rng.choice([lo - 1 if lo else hi + 1, hi + 1, lo, hi]))])],
                           [tag_v("A", v), tag_o("O")]])
    elif code == 40:
        a = rng.randrange(mx + 1)
        tags = rng.choice([[tag_r("X", a, rng.randrange(a + 1), [])], [tag_r("X", a, a, [])],
                           [tag_r("X", mx, over, [])], [tag_r("X", over, over + 1 if over + 1 < (1 << 64) else over, [])],
                           [tag_r("X", 0, mx, [])], [tag_r("X", mx, 0, [tag_v("I", rng.randrange(mx + 1))])]])
    elif code == 41:
        a = rng.randrange(0, max(1, mx - 3))
        b = rng.randrange(a, mx + 1)
        c = rng.choice([b, b + 1, max(a, b - 1), a])
        d = rng.randrange(min(c, mx), mx + 1)
        r = [tag_r("X", a, b, []), tag_r("Y", c, d, [])]
        if rng.random() < 0.4:
            r.append(tag_r("Z", rng.randrange(mx + 1), rng.randrange(mx + 1), []))
        rng.shuffle(r)
        tags = r
    elif code == 43:
        a = rng.randrange(0, mx + 1)
        b = rng.randrange(a, mx + 1)
        tags = [tag_v("A", rng.choice([a, b, (a + b) // 2, max(0, a - 1), min(mx, b + 1)])), tag_r("X", a, b, []),
                tag_v("B", rng.choice([a, b]))]
        if rng.random() < 0.3:
            tags[1] = tag_r("X", b, a, [])
        rng.shuffle(tags)
    elif code == 44:
        tags = [tag_v("A", 0), tag_o("X"), tag_v("B", mx), tag_o("Y")]
        if rng.random() < 0.3:
            tags.append(tag_o("X"))
        rng.shuffle(tags)
    ds = [enum("A", w, tags)]
    if rng.random() < 0.5:
        pad = (8 - w % 8) % 8
        ds.append(packet("P", [typedef("e", "A")] + ([reserved(pad)] if pad else [])))
    return finish(rng, ds)


def constraint_ctx(rng, target_fields, cs, extra=()):
    """put constraints `cs` on `target_fields` either through inheritance (child,
    grandchild, parent fields coming from a group) or through a group field"""
    k = rng.choice(["child", "grandchild", "group", "nested_group", "child_via_group", "struct_child"])
    tf = list(target_fields) or [scalar("w", 8)]     # a group cannot be empty
    if k == "child":
        ds = [packet("A", tf + [payload()]), packet("B", aligned_filler(rng, "b"), parent_id="A", constraints=cs)]
    elif k == "struct_child":
        ds = [struct("A", tf + [payload()]), struct("B", aligned_filler(rng, "b"), parent_id="A", constraints=cs)]
    elif k == "grandchild":
        ds = [packet("A", tf + [payload()]), packet("M", [scalar("m", 8), payload()], parent_id="A"),
              packet("B", [], parent_id="M", constraints=cs)]
    elif k == "group":
        ds = [group("A", tf), packet("B", aligned_filler(rng, "b") + [group_f("A", cs)])]
    elif k == "nested_group":
        ds = [group("A", tf), group("Mid", [scalar("m", 8), group_f("A", cs)]), packet("B", [group_f("Mid")])]
    else:
        ds = [group("G", tf), packet("A", [group_f("G"), payload()]), packet("B", [], parent_id="A", constraints=cs)]
    return finish(rng, list(extra) + ds)


def t_constraint(rng, code):
    w = boundary_width(rng)
    pad = (8 - w % 8) % 8
    sc = [scalar("x", w)] + ([reserved(pad)] if pad else [])
    en = enum("C", 8, [tag_v("X", 0), tag_r("R", 1, 15, [tag_v("RX", 2)]), tag_o("O")])
    ty = [typedef("x", "C")]
    mx = (1 << w) - 1
    if code == 15:
        return constraint_ctx(rng, rng.choice([[], sc]), [rng.choice([constraint("y", 1), constraint("y", tag_id="X")])])
    if code == 16:
        return constraint_ctx(rng, [array("x", width=8, size=rng.choice([None, 2]))],
                              [rng.choice([constraint("x", 1), constraint("x", tag_id="X")])])
    if code == 17:
        return constraint_ctx(rng, sc, [constraint("x", tag_id="X")])
    if code == 18:
        v = rng.choice([mx + 1, mx + 2, (1 << 64) - 1]) if w < 64 else mx
        return constraint_ctx(rng, sc, [constraint("x", min(v, (1 << 64) - 1))])
    if code == 180:   # boundary, valid: 2^w - 1
        return constraint_ctx(rng, sc, [constraint("x", mx)])
    if code == 19:
        return constraint_ctx(rng, ty, [constraint("x", rng.choice([0, 1, 300]))], [en])
    if code == 20:
        return constraint_ctx(rng, ty, [constraint("x", tag_id=rng.choice(["Y", "RX", "C"]))], [en])
    if code == 21:
        other = rng.choice([struct("C", []), struct("C", [scalar("q", 8)]), custom_field("C", 8), checksum("C", 8),
                            custom_field("C", None)])
        return constraint_ctx(rng, ty, [constraint("x", rng.choice([0, 7]))], [other])
    if code == 210:   # tag constraint on a non-enum typedef: unwrap panic
        other = rng.choice([struct("C", [scalar("q", 8)]), custom_field("C", 8), checksum("C", 8)])
        return constraint_ctx(rng, ty, [constraint("x", tag_id="X")], [other])
    if code == 22:
        k = rng.randrange(5)
        if k == 0:
            return constraint_ctx(rng, sc, [constraint("x", 0), constraint("x", 1 & mx)])
        if k == 1:
            return finish(rng, [packet("A", sc + [payload()]), packet("B", [payload()], parent_id="A", constraints=[constraint("x", 0)]),
                                packet("C", [], parent_id="B", constraints=[constraint("x", 1 & mx)])])
        if k == 2:
            return constraint_ctx(rng, sc + ty, [constraint("x", 0), constraint("x", tag_id="X"), constraint("x", 0)], [en])
        # constrained again by a NON-ADJACENT descendant (one or two declarations in between
        # that leave the field alone)
        mids = rng.choice([1, 2])
        decls = [packet("A", sc + [payload()]), packet("B", [payload()], parent_id="A", constraints=[constraint("x", 0)])]
        prev = "B"
        for m in range(mids):
            decls.append(packet(f"M{m}", [scalar(f"m{m}", 8), payload()], parent_id=prev))
            prev = f"M{m}"
        decls.append(packet("C", [], parent_id=prev, constraints=[constraint("x", 1 & mx)]))
        return finish(rng, decls)
    if code == 220:   # valid: a field of a DISTANT ancestor constrained once, far down the chain
        depth = rng.choice([2, 3, 4])
        decls = [packet("A", sc + [scalar("y", 8), payload()])]
        prev = "A"
        for m in range(depth):
            cs = [constraint("y", 3)] if m == 0 and rng.random() < 0.5 else []
            decls.append(packet(f"M{m}", [scalar(f"m{m}", 8), payload()], parent_id=prev, constraints=cs))
            prev = f"M{m}"
        decls.append(packet("C", [], parent_id=prev, constraints=[constraint("x", 1 & mx)]))
        return finish(rng, decls)
    if code == 42:
        return constraint_ctx(rng, ty, [constraint("x", tag_id="R")], [en])
    if code == 420:   # valid enum constraints: value tag, default tag
        return constraint_ctx(rng, ty, [constraint("x", tag_id=rng.choice(["X", "O"]))], [en])
    raise ValueError(code)


def t_size(rng, code):
    arr = array("x", width=8)
    en = enum("B", 8, [tag_v("X", 0)])
    wrong = rng.choice([typedef("x", "B"), scalar("x", 8), typedef("x", "S")])
    w = rng.choice([8, 16, 4])
    padw = [reserved(8 - w)] if w < 8 else []
    if code == 23:
        fs = rng.choice([[size_f("_payload_", 8), size_f("_payload_", 8), payload()],
                         [count_f("x", 8), size_f("x", 8), arr], [size_f("x", 8), arr, size_f("x", 8)],
                         [size_f("_body_", 8), size_f("_body_", 8), body()]])
    elif code == 24:
        fs = rng.choice([[size_f("x", w)] + padw, [size_f("_payload_", w)] + padw, [size_f("_body_", 8), payload()],
                         [size_f("_payload_", 8), body()], [size_f("y", 8), arr]])
    elif code == 25:
        fs = [size_f("x", w)] + padw + [wrong]
        if rng.random() < 0.3:
            fs.reverse()
    elif code == 26:
        fs = rng.choice([[size_f("x", 8), count_f("x", 8), arr], [count_f("x", 8), count_f("x", 8), arr]])
    elif code == 27:
        fs = rng.choice([[count_f("x", w)] + padw, [count_f("_payload_", 8), payload()]]) if False else [count_f("x", w)] + padw
    elif code == 28:
        fs = [count_f("x", w)] + padw + [wrong]
    elif code == 29:
        fs = [elementsize_f("x", 8), elementsize_f("x", 8), array("x", type_id="S")]
    elif code == 30:
        fs = [elementsize_f("x", w)] + padw
    elif code == 31:
        fs = [elementsize_f("x", w)] + padw + [wrong]
    elif code == 38:
        fs = [rng.choice([size_f, count_f])("x", 8), array("x", width=8, size=rng.choice([0, 8]))]
        if rng.random() < 0.3:
            fs.reverse()
    elif code == 380:  # size field AFTER its array: accepted
        fs = [arr, rng.choice([size_f, count_f])("x", 8)]
    return finish(rng, [en, struct("S", [scalar("a", 8)])] + host(rng, fs))


def t_fixed(rng, code):
    w = boundary_width(rng)
    mx = (1 << w) - 1
    pad = (8 - w % 8) % 8
    extra = []
    if code == 32:
        v = rng.choice([mx + 1, (1 << 64) - 1]) if w < 64 else mx
        fs = [fixed_s(w, min(v, (1 << 64) - 1))] + ([reserved(pad)] if pad else [])
    elif code == 320:
        fs = [fixed_s(w, mx)] + ([reserved(pad)] if pad else [])
    elif code == 33:
        fs = [fixed_e("B", "X")]
    elif code == 34:
        extra = [enum("B", 8, [tag_v("X", 0), tag_r("R", 1, 9, [tag_v("In", 2)]), tag_o("O")])]
        fs = [fixed_e("B", rng.choice(["Y", "In", "B"]))]
    elif code == 340:  # range and default tags are accepted as fixed values
        extra = [enum("B", 8, [tag_v("X", 0), tag_r("R", 1, 9, [tag_v("In", 2)]), tag_o("O")])]
        fs = [fixed_e("B", rng.choice(["R", "O", "X"]))]
    elif code == 35:
        extra = [rng.choice([struct("B", []), custom_field("B", 8), packet("B", []), group("B", [scalar("q", 8)]), checksum("B", 8)])]
        fs = [fixed_e("B", "X")]
    ds = extra + host(rng, fs)
    if code in (34, 340) and rng.random() < 0.7:
        # the enum must come first in the file, else Schema::new panics (forward reference)
        ds = extra + [d for d in ds if d not in extra]
        return file("little_endian", ds)
    return finish(rng, ds)


def t_payload(rng, code):
    if code == 36:
        fs = rng.choice([[payload(), body()], [body(), payload()], [payload(), scalar("m", 8), payload()],
                         [body(), body(), body()]])
        return finish(rng, host(rng, fs, kinds=["packet", "struct", "child", "group"]))
    kw = rng.choice([packet, struct])
    k = rng.randrange(4)
    if k == 0:
        ds = [kw("A", [scalar("x", 8)]), kw("B", [scalar("y", 8)], parent_id="A")]
    elif k == 1:
        ds = [kw("A", [scalar("x", 8)]), kw("B", [], parent_id="A", constraints=[constraint("x", 0)]),
              kw("C", [scalar("y", 8)], parent_id="B")]
    elif k == 2:   # payload only via a group: still missing (checked before inlining)
        ds = [group("G", [payload()]), kw("A", [scalar("x", 8), group_f("G")]), kw("B", [scalar("y", 8)], parent_id="A")]
    else:          # valid: child without fields
        ds = [kw("A", [scalar("x", 8)]), kw("B", [], parent_id="A", constraints=[constraint("x", 0)])]
    return finish(rng, ds)


def t_padding(rng, code):
    n = rng.choice([1, 16, (1 << 61) - 1])
    if code == 390:
        # the padding is the FIRST field of its declaration, and the declaration before it
        # (possibly with field-less declarations in between) ENDS with an array
        prev = rng.choice([packet("Blob", [size_f("data", 8), array("data", width=8)]),
                           struct("Blob", [scalar("q", 8), array("data", width=16, size=2)]),
                           packet("Blob", [array("data", width=8)])])
        mid = rng.sample([enum("En", 8, [tag_v("X", 0)]), custom_field("Cu", 8), checksum("Ck", 8)], rng.randrange(3))
        kw = rng.choice([packet, struct])
        return file(rng.choice(["little_endian", "big_endian"]),
                    [prev] + mid + [kw("Frame", [padding(rng.choice([1, 4, 16])), scalar("tag", 8)])])
    k = rng.randrange(6)
    if k == 0:
        fs = [padding(n), array("x", width=8)]
    elif k == 1:
        fs = [typedef("x", "En"), padding(n)]
    elif k == 2:
        fs = [array("x", width=8), padding(n), padding(n)]
    elif k == 3:
        fs = [array("x", width=8), scalar("m", 8), padding(n)]
    elif k == 4:   # valid
        fs = [array("x", width=8, size=rng.choice([None, 2])), padding(n)]
    else:
        return finish(rng, [group("G", [array("x", width=8)]), packet("A", [group_f("G"), padding(n)])])
    return finish(rng, [enum("En", 8, [tag_v("X", 0)])] + host(rng, fs, pre=[] if k == 0 and rng.random() < 0.5 else None))


def t_optional(rng, code):
    en = enum("En", 8, [tag_v("X", 0)])
    c1 = constraint("c", rng.choice([0, 1]))
    head = [scalar("c", 1), reserved(7)]
    if code == 45:
        f = rng.choice([array("x", width=8), size_f("x", 8), padding(10), reserved(8), fixed_s(8, 0x42),
                        fixed_e("En", "X"), payload(), body(), count_f("x", 8), elementsize_f("x", 8), group_f("Gq")])
        f = with_cond(f, c1)
        fs = head + [f]
        if f["kind"] in ("size_field", "count_field", "elementsize_field"):
            fs.append(array("x", width=8))
        if f["kind"] == "padding_field":
            fs.insert(2, array("x", width=8))
        return finish(rng, [en, group("Gq", [scalar("gq", 8)])] + host(rng, fs))
    if code == 450:   # valid optionals
        f = rng.choice([scalar("x", rng.choice([8, 16, 64, 3])), typedef("x", "En"), typedef("x", "St")])
        fs = head + [with_cond(f, c1)]
        if rng.random() < 0.5:
            fs.append(with_cond(scalar("y", 8), constraint("c", 0)))
        return finish(rng, [en, struct("St", [scalar("a", 8)])] + host(rng, fs))
    if code == 46:
        fs = rng.choice([[with_cond(scalar("x", 8), c1), reserved(8)],
                         [with_cond(scalar("x", 8), c1)] + head,
                         head + [with_cond(scalar("x", 8), constraint("d", 1))]])
        ks = None
        if rng.random() < 0.3:   # the flag lives in the parent or in a group: still undeclared
            return finish(rng, [packet("Par", head + [payload()]),
                                packet("A", [with_cond(scalar("x", 8), c1)], parent_id="Par")])
        return finish(rng, host(rng, fs, kinds=ks))
    if code == 47:
        cdef = rng.choice([[typedef("c", "En")], [array("c", width=8)], [scalar("c", 8)], [scalar("c", 2), reserved(6)],
                           [typedef("c", "St")]])
        return finish(rng, [en, struct("St", [scalar("a", 8)])] + host(rng, cdef + [with_cond(scalar("x", 8), c1)]))
    if code == 48:
        c = rng.choice([constraint("c", tag_id="A"), constraint("c", 2), constraint("c", (1 << 64) - 1)])
        return finish(rng, host(rng, head + [with_cond(scalar("x", 8), c)]))
    if code == 49:
        fs = [scalar("c0", 1), reserved(7), with_cond(scalar("c1", 1), constraint("c0", 1)), reserved(7),
              with_cond(scalar("x", 8), constraint("c1", 1))]
        return finish(rng, host(rng, fs))
    raise ValueError(code)


def t_offset(rng, code):
    """E51: a field that must be octet aligned at bit offset 1..9 (7 / 8 / 9 matter)"""
    off = rng.choice([1, 7, 8, 9, 15, 16, 17, rng.randint(1, 65)])
    lead = []
    left = off
    i = 0
    while left > 0:
        w = min(left, rng.choice([1, 3, 8, 64]))
        i += 1
        lead.append(rng.choice([scalar(f"l{i}", w), reserved(w), fixed_s(w, 0)]))
        left -= w
    f = rng.choice([typedef("s", "S"), array("b", width=8), payload(), body(), typedef("f", "F"), typedef("d", "D"),
                    array("b", type_id="S", size=2), typedef("e", "E7"), checksum_start("k")])
    tail_w = (8 - (off % 8)) % 8
    extra = []
    if f["kind"] == "typedef_field" and f["type_id"] == "E7":
        tail_w = (8 - ((off + 7) % 8)) % 8
    tail = [scalar("t", tail_w)] if tail_w else []
    fs = lead + [f] + tail
    if f["kind"] == "array_field" and rng.random() < 0.3:
        fs = lead + [f, padding(4)] + tail
    ds = [struct("S", [scalar("a", 8)]), custom_field("F", 8), custom_field("D", None),
          enum("E7", 7, [tag_v("X", 0)])]
    # dynamic fields reset the offset
    if rng.random() < 0.3:
        fs = [scalar("c", 1), scalar("r", 7), with_cond(scalar("o", 8), constraint("c", 1))] + fs
    return finish(rng, ds + host(rng, fs, pre=[], kinds=["packet", "struct", "child", "group"]))


def t_sizes(rng, code):
    if code == 52:
        w = rng.choice([1, 7, 9, 12, 63, 65, 4])
        f = array("a", width=w, size=rng.choice([None, 8, 2]))
        return finish(rng, host(rng, [f]))
    k = rng.randrange(6)
    b = rng.choice([1, 7, 9, 15, 63])
    if k == 0:
        fs = [scalar("a", b)]
    elif k == 1:
        fs = [array("a", width=8), scalar("b", b)]
    elif k == 2:
        fs = [typedef("a", "S"), scalar("b", b)]
    elif k == 3:
        fs = [scalar("b", b), scalar("c", 1), with_cond(scalar("o", 8), constraint("c", 1))]
    elif k == 4:
        fs = [scalar("a", b), payload(), scalar("z", 8 - b % 8)]     # E51 on payload, sizes add up
    else:
        fs = [typedef("e", "E7"), scalar("b", rng.choice([1, 2]))]
    ds = [struct("S", [size_f("_payload_", 8), payload()]), enum("E7", 7, [tag_v("X", 0)])]
    return finish(rng, ds + host(rng, fs, pre=[], post=[], kinds=["packet", "struct", "child", "group"]))


TEMPLATES = {
    "E1": t_e1, "E2": t_e2, "E3": t_e3, "E4": t_e4, "E5": t_e5, "E6": t_e6, "E7": t_e7, "E8": t_e8,
    "E9": t_e9, "E10": t_e10, "E11": t_e11,
    "E12": lambda r: t_enum(r, 12), "E13": lambda r: t_enum(r, 13), "E14": lambda r: t_enum(r, 14),
    "E40": lambda r: t_enum(r, 40), "E41": lambda r: t_enum(r, 41), "E43": lambda r: t_enum(r, 43),
    "E44": lambda r: t_enum(r, 44),
    "E15": lambda r: t_constraint(r, 15), "E16": lambda r: t_constraint(r, 16), "E17": lambda r: t_constraint(r, 17),
    "E18": lambda r: t_constraint(r, 18), "E18ok": lambda r: t_constraint(r, 180), "E19": lambda r: t_constraint(r, 19),
    "E20": lambda r: t_constraint(r, 20), "E21": lambda r: t_constraint(r, 21), "E21tag": lambda r: t_constraint(r, 210),
    "E22": lambda r: t_constraint(r, 22), "E22deep-ok": lambda r: t_constraint(r, 220), "E42": lambda r: t_constraint(r, 42), "E42ok": lambda r: t_constraint(r, 420),
    "E23": lambda r: t_size(r, 23), "E24": lambda r: t_size(r, 24), "E25": lambda r: t_size(r, 25),
    "E26": lambda r: t_size(r, 26), "E27": lambda r: t_size(r, 27), "E28": lambda r: t_size(r, 28),
    "E29": lambda r: t_size(r, 29), "E30": lambda r: t_size(r, 30), "E31": lambda r: t_size(r, 31),
    "E38": lambda r: t_size(r, 38), "E38after": lambda r: t_size(r, 380),
    "E32": lambda r: t_fixed(r, 32), "E32ok": lambda r: t_fixed(r, 320), "E33": lambda r: t_fixed(r, 33),
    "E34": lambda r: t_fixed(r, 34), "E34ok": lambda r: t_fixed(r, 340), "E35": lambda r: t_fixed(r, 35),
    "E36": lambda r: t_payload(r, 36), "E37": lambda r: t_payload(r, 37), "E39": lambda r: t_padding(r, 39), "E39prev": lambda r: t_padding(r, 390),
    "E45": lambda r: t_optional(r, 45), "E45ok": lambda r: t_optional(r, 450), "E46": lambda r: t_optional(r, 46),
    "E47": lambda r: t_optional(r, 47), "E48": lambda r: t_optional(r, 48), "E49": lambda r: t_optional(r, 49),
    "E51": lambda r: t_offset(r, 51), "E52": lambda r: t_sizes(r, 52), "E53": lambda r: t_sizes(r, 53),
}


# --------------------------------------------------------------------------- random edits of well-formed files

U64 = (1 << 64) - 1
ODD_INTS = [0, 1, 2, 7, 8, 9, 63, 64, 65, 255, 256, 1 << 32, 1 << 61, (1 << 61) - 1, 1 << 62, 1 << 63, U64]


def decls_with_fields(f):
    return [d for d in f["declarations"] if d.get("fields")]


def ids_of(f):
    return [d["id"] for d in f["declarations"] if "id" in d]


def m_rename_decl(f, rng):
    ds = [d for d in f["declarations"] if "id" in d]
    if len(ds) < 2:
        return False
    a, b = rng.sample(ds, 2)
    a["id"] = b["id"]
    return True


def m_delete_decl(f, rng):
    if len(f["declarations"]) < 2:
        return False
    del f["declarations"][rng.randrange(len(f["declarations"]))]
    return True


def m_move_decl(f, rng):
    ds = f["declarations"]
    d = ds.pop(rng.randrange(len(ds)))
    ds.insert(rng.randrange(len(ds) + 1), d)
    return True


def m_width(f, rng):
    c = [(d, x) for d in decls_with_fields(f) for x in d["fields"] if x.get("width") is not None]
    if not c:
        return False
    d, x = rng.choice(c)
    x["width"] = rng.choice([x["width"] + 1, max(0, x["width"] - 1), x["width"] + 8, rng.choice(ODD_INTS)])
    return True


def m_dup_field(f, rng):
    c = decls_with_fields(f)
    if not c:
        return False
    d = rng.choice(c)
    x = copy.deepcopy(rng.choice(d["fields"]))
    d["fields"].insert(rng.randrange(len(d["fields"]) + 1), x)
    return True


def m_del_field(f, rng):
    c = decls_with_fields(f)
    if not c:
        return False
    d = rng.choice(c)
    if d["kind"] == "group_declaration" and len(d["fields"]) == 1:
        return False
    del d["fields"][rng.randrange(len(d["fields"]))]
    return True


def m_swap_fields(f, rng):
    c = [d for d in decls_with_fields(f) if len(d["fields"]) >= 2]
    if not c:
        return False
    d = rng.choice(c)
    i, j = rng.sample(range(len(d["fields"])), 2)
    d["fields"][i], d["fields"][j] = d["fields"][j], d["fields"][i]
    return True


def m_move_field(f, rng):
    c = decls_with_fields(f)
    if len(c) < 2:
        return False
    a, b = rng.sample(c, 2)
    if a["kind"] == "group_declaration" and len(a["fields"]) == 1:
        return False
    x = a["fields"].pop(rng.randrange(len(a["fields"])))
    b["fields"].insert(rng.randrange(len(b["fields"]) + 1), x)
    return True


def m_retarget_type(f, rng):
    c = [x for d in decls_with_fields(f) for x in d["fields"]
         if x["kind"] in ("typedef_field", "array_field") and x.get("type_id")]
    c += [x for d in decls_with_fields(f) for x in d["fields"] if x["kind"] == "group_field"]
    c += [x for d in decls_with_fields(f) for x in d["fields"] if x["kind"] == "fixed_field" and "enum_id" in x]
    if not c:
        return False
    x = rng.choice(c)
    key = "group_id" if x["kind"] == "group_field" else "enum_id" if x["kind"] == "fixed_field" else "type_id"
    x[key] = rng.choice(ids_of(f) + ["Nowhere"])
    return True


def m_reparent(f, rng):
    c = [d for d in f["declarations"] if d["kind"] in ("packet_declaration", "struct_declaration")]
    if not c:
        return False
    d = rng.choice(c)
    d["parent_id"] = rng.choice(ids_of(f) + ["Nowhere", None])
    return True


def m_constraint(f, rng):
    c = [k for d in f["declarations"] for k in d.get("constraints", [])]
    c += [k for d in decls_with_fields(f) for x in d["fields"] if x["kind"] == "group_field" for k in x["constraints"]]
    if not c:
        return False
    k = rng.choice(c)
    how = rng.randrange(5)
    if how == 0:
        k["value"], k["tag_id"] = None, rng.choice(["X", "V0", "R", "Other", "A"])
    elif how == 1:
        k["value"], k["tag_id"] = rng.choice(ODD_INTS), None
    elif how == 2:
        fields = [x["id"] for d in decls_with_fields(f) for x in d["fields"] if "id" in x]
        k["id"] = rng.choice(fields + ["nothing"])
    elif how == 3 and k["value"] is not None:
        k["value"] = min(U64, k["value"] * 2 + 1)
    else:
        holders = [d["constraints"] for d in f["declarations"] if d.get("constraints")]
        holders += [x["constraints"] for d in decls_with_fields(f) for x in d["fields"]
                    if x["kind"] == "group_field" and x["constraints"]]
        h = rng.choice(holders)
        h.append(copy.deepcopy(rng.choice(h)))
    return True


def m_add_constraint(f, rng):
    holders = [d for d in f["declarations"] if d.get("parent_id")]
    gf = [x for d in decls_with_fields(f) for x in d["fields"] if x["kind"] == "group_field"]
    fields = [x for d in decls_with_fields(f) for x in d["fields"] if "id" in x]
    if not fields or not (holders or gf):
        return False
    x = rng.choice(fields)
    k = rng.choice([constraint(x["id"], rng.choice([0, 1, 255])), constraint(x["id"], tag_id=rng.choice(["V0", "A", "X"]))])
    (rng.choice(holders + gf))["constraints"].append(k)
    return True


def m_cond(f, rng):
    c = [(d, x) for d in decls_with_fields(f) for x in d["fields"]]
    if not c:
        return False
    d, x = rng.choice(c)
    ids = [y["id"] for y in d["fields"] if "id" in y]
    if x.get("cond") and rng.random() < 0.6:
        how = rng.randrange(4)
        if how == 0:
            x["cond"] = dict(x["cond"], value=rng.choice([2, 3, U64]))
        elif how == 1:
            x["cond"] = dict(x["cond"], value=None, tag_id="X")
        elif how == 2:
            x["cond"] = dict(x["cond"], id=rng.choice(ids + ["nothing"]))
        else:
            x["cond"] = None
    else:
        x["cond"] = constraint(rng.choice(ids + ["nothing"]), rng.choice([0, 1, 1, 2]))
    return True


def m_enum(f, rng):
    c = [d for d in f["declarations"] if d["kind"] == "enum_declaration"]
    if not c:
        return False
    e = rng.choice(c)
    how = rng.randrange(8)
    t = rng.choice(e["tags"])
    if how == 0:
        e["width"] = rng.choice([0, 1, 7, 8, 9, 63, 64, 65, max(0, e["width"] - 1), e["width"] + 1])
    elif how == 1 and "value" in t:
        t["value"] = rng.choice(ODD_INTS + [(1 << e["width"]) - 1 if e["width"] <= 64 else 0, min(U64, 1 << min(e["width"], 63))])
    elif how == 2 and "range" in t:
        r = t["range"]
        r[rng.choice(["start", "end"])] = rng.choice(ODD_INTS + [r["start"], r["end"]])
    elif how == 3:
        e["tags"].insert(rng.randrange(len(e["tags"]) + 1), copy.deepcopy(t))
    elif how == 4:
        e["tags"].append(tag_o(rng.choice(["Other", "Dflt", t["id"]])))
    elif how == 5:
        e["tags"] = [x for x in e["tags"] if x is not t] or [tag_o("Only")]
    elif how == 6:
        a, b = sorted([rng.choice(ODD_INTS[:10]), rng.choice(ODD_INTS[:10])])
        e["tags"].append(tag_r(rng.choice(["NewR", t["id"]]), a, b, [tag_v("NewI", rng.choice([a, b, b + 1]))] if rng.random() < 0.5 else []))
    else:
        e["tags"].append(tag_v(rng.choice(["NewV", t["id"]]), rng.choice(ODD_INTS[:10])))
    return True


def m_array(f, rng):
    c = [(d, x) for d in decls_with_fields(f) for x in d["fields"] if x["kind"] == "array_field"]
    if not c:
        return False
    d, x = rng.choice(c)
    how = rng.randrange(5)
    if how == 0:
        x["size"], x["size_modifier"] = rng.choice(ODD_INTS), None
    elif how == 1:
        x["size"] = None
    elif how == 2:
        d["fields"].insert(rng.randrange(len(d["fields"]) + 1), rng.choice([size_f, count_f, elementsize_f])(x["id"], rng.choice([4, 8, 16])))
    elif how == 3:
        d["fields"].insert(d["fields"].index(x) + rng.choice([0, 1, 1, 2]), padding(rng.choice(ODD_INTS)))
    else:
        x["width"], x["type_id"] = rng.choice([1, 7, 8, 12, 64, 65, 1 << 62]), None
    return True


def m_insert(f, rng):
    c = decls_with_fields(f)
    if not c:
        return False
    d = rng.choice(c)
    ids = [y["id"] for y in d["fields"] if "id" in y] or ["q"]
    allids = ids_of(f)
    new = rng.choice([
        lambda: payload(), lambda: body(), lambda: size_f(rng.choice(ids + ["_payload_", "_body_"]), 8),
        lambda: count_f(rng.choice(ids), 8), lambda: elementsize_f(rng.choice(ids), 8),
        lambda: padding(rng.choice([1, 8])), lambda: reserved(rng.choice([1, 8, 0])),
        lambda: fixed_s(8, rng.choice([0, 255, 256])), lambda: fixed_e(rng.choice(allids), rng.choice(["V0", "A", "X"])),
        lambda: scalar(rng.choice(ids + ["fresh"]), rng.choice([1, 8])), lambda: typedef("fresh", rng.choice(allids)),
        lambda: array("fresh", type_id=rng.choice(allids), size=rng.choice([None, 2])),
        lambda: group_f(rng.choice(allids)), lambda: checksum_start(rng.choice(ids)),
    ])()
    d["fields"].insert(rng.randrange(len(d["fields"]) + 1), new)
    return True


def m_test(f, rng):
    f["declarations"].insert(rng.randrange(len(f["declarations"]) + 1), test_decl(rng.choice(ids_of(f) + ["Nowhere"])))
    return True


def m_kind(f, rng):
    """turn a packet into a struct / group and conversely"""
    c = [d for d in f["declarations"] if d["kind"] in ("packet_declaration", "struct_declaration", "group_declaration")]
    if not c:
        return False
    d = rng.choice(c)
    k = rng.choice(["packet_declaration", "struct_declaration", "group_declaration"])
    if k == "group_declaration":
        if not d["fields"]:
            return False
        d.pop("constraints", None)
        d.pop("parent_id", None)
    else:
        d.setdefault("constraints", [])
        d.setdefault("parent_id", None)
    d["kind"] = k
    return True


MUTATORS = [m_rename_decl, m_delete_decl, m_move_decl, m_width, m_width, m_dup_field, m_del_field, m_swap_fields,
            m_move_field, m_retarget_type, m_retarget_type, m_reparent, m_constraint, m_constraint, m_add_constraint,
            m_cond, m_cond, m_enum, m_enum, m_array, m_array, m_insert, m_insert, m_test, m_kind]


def mutant(rng, n_edits=None):
    f = wellformed(rng)
    n = n_edits if n_edits is not None else rng.choice([1, 1, 1, 2, 3])
    done = 0
    tries = 0
    names = []
    while done < n and tries < 20:
        tries += 1
        m = rng.choice(MUTATORS)
        if m(f, rng):
            done += 1
            names.append(m.__name__)
    return "+".join(names), f


# --------------------------------------------------------------------------- absurd inputs (panic hunting)

def absurd(rng):
    B = 1 << 63
    en = enum("E", 8, [tag_v("A", 1), tag_r("R", 2, 9, []), tag_o("O")])
    cases = [
        # typedef / array / fixed naming a group
        lambda: [group("G", [scalar("a", 8)]), packet("P", [typedef("x", "G")])],
        lambda: [group("G", [scalar("a", 8)]), packet("P", [array("x", type_id="G", size=rng.choice([None, 2]))])],
        lambda: [group("G", [scalar("a", 8)]), packet("P", [group_f("G"), typedef("x", "G")])],
        # fixed enum declared after its user / before
        lambda: [packet("P", [fixed_e("E", "A")]), en],
        lambda: [en, packet("P", [fixed_e("E", "A")])],
        lambda: [group("G", [typedef("t", "E")]), packet("P", [group_f("G", [constraint("t", tag_id="A")])]), en],
        lambda: [group("G", [fixed_e("E", "A")]), packet("P", [group_f("G")]), en],
        # size field after its array, count of payload
        lambda: [packet("P", [array("x", width=8), size_f("x", 8)])],
        lambda: [packet("P", [payload(), size_f("_payload_", 8), size_f("x", 8), array("x", width=8)])],
        # zero-width things
        lambda: [packet("P", [scalar("a", 0), reserved(0), fixed_s(0, 0), array("x", width=0, size=3), size_f("y", 0), array("y", width=8)])],
        lambda: [enum("Z", 0, [tag_v("A", 0)]), packet("P", [typedef("z", "Z")])],
        lambda: [struct("Z", []), packet("P", [array("x", type_id="Z"), typedef("z", "Z")])],
        lambda: [custom_field("C", 0), checksum("K", 0), packet("P", [typedef("c", "C"), typedef("k", "K")])],
        # huge widths and counts
        lambda: [packet("P", [scalar("a", rng.choice([64, 65, B, U64 - 7, U64]))])],
        lambda: [packet("P", [reserved(B), reserved(B)])],
        lambda: [packet("P", [scalar("a", U64 - 7), scalar("b", 8)])],
        lambda: [packet("P", [scalar("a", U64 - 7), payload(), scalar("b", 8)])],
        lambda: [packet("P", [array("x", width=rng.choice([8, 64]), size=rng.choice([1 << 58, 1 << 61, B, U64]))])],
        lambda: [struct("S", [scalar("a", rng.choice([16, 8, 0]))]), packet("P", [array("x", type_id="S", size=rng.choice([1 << 60, 1 << 61, B, U64]))])],
        lambda: [packet("P", [array("x", width=8), padding(rng.choice([1 << 60, (1 << 61) - 1, 1 << 61, B, U64]))])],
        lambda: [packet("P", [array("x", width=8, size=1 << 60), padding(1), array("y", width=8, size=1 << 60), padding(1)])],
        lambda: [packet("P", [array("x", width=8, size=1 << 60), padding(1 << 60), array("y", width=8, size=1 << 60), padding(1 << 60)])],
        lambda: [packet("P", [scalar("a", 1 << 62), scalar("b", 1 << 62), scalar("c", 1 << 62), scalar("d", 1 << 62)])],
        lambda: [packet("P", [scalar("a", B), payload(), scalar("b", B)])],
        lambda: [packet("P", [scalar("a", B), array("m", width=8), scalar("b", B)])],
        lambda: [packet("P", [scalar("c", 1), reserved(7), with_cond(scalar("a", B), constraint("c", 1)), with_cond(scalar("b", B), constraint("c", 1))])],
        lambda: [struct("S", [scalar("a", B)]), packet("P", [typedef("s", "S"), typedef("t", "S")])],
        lambda: [packet("A", [scalar("a", B), payload()]), packet("C", [scalar("b", B)], parent_id="A")],
        lambda: [packet("A", [scalar("a", B), payload()]), packet("C", [payload()], parent_id="A"), packet("D", [], parent_id="C")],
        lambda: [enum("W", rng.choice([64, 65, B]), [tag_v("A", U64), tag_r("R", 0, U64 - 1, [])]), packet("P", [typedef("w", "W")])],
        lambda: [custom_field("C", B), packet("P", [typedef("c", "C"), typedef("d", "C")])],
        lambda: [packet("P", [fixed_s(64, U64), fixed_s(65, U64), fixed_s(63, B)])],
        # enums with only a default tag / only a range
        lambda: [enum("D", 8, [tag_o("X")]), packet("P", [typedef("d", "D"), fixed_e("D", "X")])],
        lambda: [enum("D", 8, [tag_o("X")]), packet("A", [typedef("d", "D"), payload()]), packet("C", [], parent_id="A", constraints=[constraint("d", tag_id="X")])],
        lambda: [enum("D", 8, [tag_r("X", 0, 255, [])]), packet("P", [typedef("d", "D"), fixed_e("D", "X")])],
        # constraints on flags, optional fields, constrained optionals
        lambda: [packet("P", [scalar("c", 1), reserved(7), with_cond(scalar("x", 8), constraint("c", 1)), payload()]),
                 packet("Q", [scalar("y", 8)], parent_id="P", constraints=[constraint("c", 1)])],
        lambda: [packet("P", [scalar("c", 1), reserved(7), with_cond(scalar("x", 8), constraint("c", 1)), payload()]),
                 packet("Q", [scalar("y", 8)], parent_id="P", constraints=[constraint("x", 1)])],
        lambda: [group("G", [scalar("c", 1), reserved(7), with_cond(scalar("x", 8), constraint("c", 1))]), packet("P", [group_f("G", [constraint("x", 3)])])],
        lambda: [group("G", [scalar("c", 1), reserved(7), with_cond(scalar("x", 8), constraint("c", 1))]), packet("P", [group_f("G", [constraint("c", 1)])])],
        lambda: [en, group("G", [scalar("c", 1), reserved(7), with_cond(typedef("x", "E"), constraint("c", 0))]), packet("P", [group_f("G", [constraint("x", tag_id="A")])])],
        lambda: [group("G", [scalar("c", 1), reserved(7), with_cond(scalar("x", 8), constraint("c", 1))]), packet("P", [group_f("G"), group_f("G")])],
        lambda: [group("G", [scalar("c", 1), reserved(7), with_cond(scalar("x", 8), constraint("c", 1))]), packet("P", [array("c", width=8, size=1), group_f("G")])],
        lambda: [group("G", [scalar("c", 1), reserved(7), with_cond(scalar("x", 8), constraint("c", 1))]), packet("P", [group_f("G"), array("c", width=8), padding(4)])],
        # shadowed identifiers through nested groups
        lambda: [en, group("G1", [scalar("x", 8)]), group("G2", [typedef("x", "E"), group_f("G1")]), packet("P", [group_f("G2", [constraint("x", tag_id="A")])])],
        lambda: [en, group("G1", [typedef("x", "E")]), group("G2", [scalar("x", 8), group_f("G1")]), packet("P", [group_f("G2", [constraint("x", 1)])])],
        lambda: [group("G1", [scalar("x", 8)]), group("G2", [scalar("x", 16), group_f("G1", [constraint("x", 5)])]), packet("P", [group_f("G2", [constraint("x", 300)])])],
        lambda: [group("G1", [scalar("x", 8)]), group("G2", [scalar("x", 16), group_f("G1")]), packet("P", [group_f("G2", [constraint("x", 300)])])],
        # tag constraint on a struct-typed field (unwrap in the E21 message)
        lambda: [struct("S", [scalar("a", 8)]), group("G", [typedef("s", "S")]), packet("P", [group_f("G", [constraint("s", tag_id="A")])])],
        lambda: [struct("S", [scalar("a", 8)]), packet("A", [typedef("s", "S"), payload()]), packet("C", [], parent_id="A", constraints=[constraint("s", tag_id="A")])],
        lambda: [packet("A", [typedef("s", "Nope"), payload()]), packet("C", [], parent_id="A", constraints=[constraint("s", tag_id="A")])],
        # duplicate fields through groups and inheritance (accepted)
        lambda: [group("G", [scalar("a", 8)]), packet("P", [group_f("G"), group_f("G")])],
        lambda: [packet("A", [scalar("a", 8), payload()]), packet("C", [scalar("a", 16)], parent_id="A", constraints=[constraint("a", 1)])],
        # array element type oddities
        lambda: [enum("E7", 7, [tag_v("A", 1)]), packet("P", [array("x", type_id="E7", size=rng.choice([None, 8]))])],
        lambda: [custom_field("C", None), packet("P", [array("x", type_id="C", size=2), typedef("c", "C")])],
        lambda: [checksum("K", 8), packet("P", [checksum_start("k"), scalar("a", 8), typedef("k", "K")])],
        lambda: [struct("R", [array("v", type_id="R")]), packet("P", [typedef("r", "R")])],
        # test declarations, also of children / groups
        lambda: [packet("P", [scalar("a", 8)]), test_decl("P"), test_decl("P")],
        # parent is a child of itself through a struct field
        lambda: [packet("A", [typedef("s", "S"), payload()]), struct("S", [array("v", type_id="T", size=1)]), struct("T", [scalar("q", 8)])],
        # payload in groups, two payloads via groups (accepted?)
        lambda: [group("G", [payload()]), packet("P", [group_f("G"), group_f("G")])],
        lambda: [group("G", [size_f("_payload_", 8)]), packet("P", [group_f("G"), payload()])],
        lambda: [group("G", [array("x", width=8)]), packet("P", [size_f("x", 8), group_f("G")])],
        lambda: [group("G", [array("x", width=8, size=4)]), packet("P", [count_f("x", 8), group_f("G")])],
        lambda: [packet("P", [], constraints=[constraint("zz", 1)])],
        lambda: [packet("P", [scalar("a", 8), payload()]), packet("Q", [typedef("p", "Q2")], parent_id="P"), struct("Q2", [], parent_id=None)],
    ]
    ds = rng.choice(cases)()
    if rng.random() < 0.3:
        rng.shuffle(ds)
    return file(rng.choice(["little_endian", "big_endian"]), ds)


# --------------------------------------------------------------------------- chaos

def chaos_enum(rng, id="E"):
    """an arbitrary tag list over a small universe of names and values: many
    diagnostics at once, to pin down their order"""
    w = rng.choice([1, 2, 3, 4, 8, 8, 63, 64, 65])
    mx = (1 << min(w, 64)) - 1
    vals = [0, 1, 2, 3, 4, 5, 7, 8, mx, max(0, mx - 1), min(U64, mx + 1)]
    names = ["A", "B", "C", "D", "A", "B"]
    tags = []
    for _ in range(rng.randint(1, 7)):
        k = rng.random()
        if k < 0.5:
            tags.append(tag_v(rng.choice(names), rng.choice(vals)))
        elif k < 0.85:
            inner = [tag_v(rng.choice(names + ["I", "J"]), rng.choice(vals)) for _ in range(rng.choice([0, 0, 1, 2, 3]))]
            tags.append(tag_r(rng.choice(names + ["R", "S"]), rng.choice(vals), rng.choice(vals), inner))
        else:
            tags.append(tag_o(rng.choice(names + ["O"])))
    return enum(id, w, tags)


def chaos_field(rng, ids, fids):
    w = rng.choice([1, 3, 4, 7, 8, 8, 8, 16, 64])
    c = None
    if rng.random() < 0.15:
        c = rng.choice([constraint(rng.choice(fids), rng.choice([0, 1, 1, 2])), constraint(rng.choice(fids), tag_id="A")])
    k = rng.randrange(16)
    fid = rng.choice(fids)
    tid = rng.choice(ids)
    if k == 0:
        f = scalar(fid, w)
    elif k == 1:
        f = typedef(fid, tid)
    elif k == 2:
        f = array(fid, width=rng.choice([8, 8, 12, 16]), size=rng.choice([None, None, 2]))
    elif k == 3:
        f = array(fid, type_id=tid, size=rng.choice([None, None, 2]))
    elif k == 4:
        f = size_f(rng.choice(fids + ["_payload_", "_body_"]), w)
    elif k == 5:
        f = count_f(fid, w)
    elif k == 6:
        f = elementsize_f(fid, w)
    elif k == 7:
        f = rng.choice([payload(), body(), payload("+1")])
    elif k == 8:
        f = fixed_s(w, rng.choice([0, 1, (1 << w) - 1, min(U64, 1 << w)]))
    elif k == 9:
        f = fixed_e(tid, rng.choice(["A", "B", "R"]))
    elif k == 10:
        f = reserved(w)
    elif k == 11:
        f = padding(rng.choice([1, 4]))
    elif k == 12:
        f = group_f(tid, [rng.choice([constraint(rng.choice(fids), rng.choice([0, 1, 255, 256])),
                                      constraint(rng.choice(fids), tag_id=rng.choice(["A", "B", "R"]))])
                          for _ in range(rng.choice([0, 0, 1, 2]))])
    elif k == 13:
        f = scalar(fid, 1)
    else:
        f = scalar(fid, 8)
    if c is not None:
        f = with_cond(f, c)
    return f


def chaos(rng):
    """random declarations over a tiny universe of identifiers"""
    ids = ["A", "B", "C", "D", "E", "F"][:rng.randint(2, 6)]
    fids = ["x", "y", "z", "c"]
    ds = []
    pool = list(ids) + ([rng.choice(ids)] if rng.random() < 0.1 else [])
    rng.shuffle(pool)
    for id in pool:
        k = rng.random()
        nf = rng.randint(0, 4)
        if k < 0.2:
            ds.append(chaos_enum(rng, id) if rng.random() < 0.3 else
                      enum(id, 8, [tag_v("A", 0), tag_v("B", 1), tag_r("R", 2, 9, [])]))
        elif k < 0.3:
            ds.append(custom_field(id, rng.choice([8, None])))
        elif k < 0.5:
            ds.append(group(id, [chaos_field(rng, ids, fids) for _ in range(max(1, nf))]))
        else:
            kw = packet if k < 0.8 else struct
            par = rng.choice(ids + ["Zz"]) if rng.random() < 0.35 else None
            cs = [rng.choice([constraint(rng.choice(fids), rng.choice([0, 1, 255, 256])),
                              constraint(rng.choice(fids), tag_id=rng.choice(["A", "B", "R"]))])
                  for _ in range(rng.choice([0, 1, 1, 2]))] if par else []
            ds.append(kw(id, [chaos_field(rng, ids, fids) for _ in range(nf)], parent_id=par, constraints=cs))
    return file(rng.choice(["little_endian", "big_endian"]), ds)


def chaos_enums(rng):
    ds = [chaos_enum(rng, f"E{i}") for i in range(rng.randint(1, 3))]
    return file("little_endian", ds)


# --------------------------------------------------------------------------- corpus

def corpus(seed, n):
    """n descriptions: 22% well-formed, 30% catalogue violations (every code in turn),
    25% random edits of well-formed files, 9% absurd inputs, 9% chaotic declarations,
    5% chaotic enums."""
    rng = random.Random(seed)
    out = []
    keys = list(TEMPLATES)
    ti = 0
    # the catalogue first, every template several times (templates choose among variants at
    # random: a variant that is drawn once in three runs would be missed two runs in three)
    reps = 6 if n <= 2000 else 12
    for key in keys:
        for r in range(reps):
            f = TEMPLATES[key](random.Random(f"{seed}-{key}-{r}"))
            if r % 3 == 2:
                f = with_prelude(f, random.Random(f"{seed}-{key}-{r}-p"))
            out.append((f"{key}#c{r}", f))
    for i in range(max(0, n - len(out))):
        k = rng.random()
        if k < 0.22:
            out.append((f"wf{i}", wellformed(rng)))
        elif k < 0.52:
            key = keys[ti % len(keys)]
            ti += 1
            out.append((f"{key}#{i}", TEMPLATES[key](rng)))
        elif k < 0.77:
            name, f = mutant(rng)
            out.append((f"mut{i}:{name}", f))
        elif k < 0.86:
            out.append((f"absurd{i}", absurd(rng)))
        elif k < 0.95:
            out.append((f"chaos{i}", chaos(rng)))
        else:
            out.append((f"enums{i}", chaos_enums(rng)))
    return out


def with_prelude(f, rng):
    """the same description AFTER well-formed declarations that END in the constructs whose
    presence legitimises something in the next field (an array before a padding, a payload,
    a size field, a flag, an enum): per-declaration state that is not reset between
    declarations would let the catalogued violation through.  Declared first, with names
    of their own, and depended on by nothing, they stay first in the analyzer's order."""
    pre = [
        packet("Zq0", [scalar("zq0", 8), array("zq1", width=8)]),
        struct("Zq1", [count_f("zq3", 8), array("zq3", width=16), padding(40)]),
    ]
    more = [
        packet("Zq2", [size_f("_payload_", 8), payload()]),
        packet("Zq3", [scalar("zq4", 1), reserved(7), scalar("zq5", 8, cond=constraint("zq4", 1))]),
        enum("Zq4", 8, [tag_v("ZA", 1), tag_r("ZR", 4, 9, []), tag_o("ZO")]),
        packet("Zq5", [elementsize_f("zq6", 8), count_f("zq6", 8), array("zq6", type_id="Zq1")]),
    ]
    k = rng.randrange(4)
    chosen = [pre[rng.randrange(2)]] if k == 0 else ([more[rng.randrange(len(more))], pre[0]] if k == 1 else
                                                        ([pre[1]] if k == 2 else [more[rng.randrange(3)]]))
    if any(d.get("id") == "Zq1" for d in chosen) is False and any(d.get("id") == "Zq5" for d in chosen):
        chosen = [pre[1]] + chosen
    ids = {d.get("id") for d in f["declarations"]}
    chosen = [d for d in chosen if d["id"] not in ids]
    out = dict(f)
    # the analyzer keeps the file order for declarations without forward references: make
    # sure the prelude's LAST declaration is immediately followed by the catalogued ones
    out["declarations"] = chosen + list(f["declarations"])
    return out


def report(stats, dis, out=sys.stdout):
    w = out.write
    w(f"descriptions: {stats['n']}   parse errors (skipped): {len(stats['parse_errors'])}\n")
    w("implementation verdicts: " + ", ".join(f"{k}={v}" for k, v in sorted(stats["dist"].items())) + "\n")
    w("rejections by FIRST code: " + " ".join(f"{c}:{stats['first_codes'].get(c, 0)}" for c in ALL_CODES) + "\n")
    w("descriptions whose diagnostics contain the code: " + " ".join(f"{c}:{stats['all_codes'].get(c, 0)}" for c in ALL_CODES) + "\n")
    missing = [c for c in ALL_CODES if not stats["all_codes"].get(c)]
    w("codes never seen: " + (" ".join(missing) or "none") + "\n")
    w("panic sites:\n")
    for (line, msg), items in sorted(stats["panics"].items(), key=lambda kv: (kv[0][0] or 0)):
        items.sort()
        w(f"  analyzer.rs:{line}  {msg!r}  x{len(items)}  smallest ({items[0][1]}):\n")
        for ln in items[0][2].strip().split("\n"):
            w("      " + ln + "\n")
    w(f"DISAGREEMENTS: {len(dis)}\n")
    for d in dis[:10]:
        w("--- " + d["name"] + "\n" + d["pdl"])
        w("impl : " + repr(d["impl"])[:600] + "\n")
        w("model: " + repr(d["model"])[:600] + "\n")


def main(argv):
    import argparse
    ap = argparse.ArgumentParser()
    ap.add_argument("--seed", type=int, default=20260923)
    ap.add_argument("--n", type=int, default=3000)
    a = ap.parse_args(argv)
    ds = corpus(a.seed, a.n)
    stats = {}
    dis = run(ds, stats)
    for pe in stats["parse_errors"][:5]:
        print("PARSE ERROR", pe[0], pe[3], "\n" + pe[1])
    report(stats, dis)
    return 1 if dis else 0


if __name__ == "__main__":
    sys.exit(main(sys.argv[1:]))
